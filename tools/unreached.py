#!/venv/bin/python
"""Diagnostic: which code lines of asyncstdlib does NO check reach?

usage: REACH_ALL=1 REACH_DUMP=/some/scratch/dir ./run_all.sh quick ; tools/unreached.py /some/scratch/dir

REACH_ALL=1 makes every check record reach for all files of the package (not only its anchors).  The output
lists, per file, the code lines that were never executed by any check together with their source text.  It
is a work list for widening workloads; it is not part of any verdict.
"""
import json
import os
import sys

sys.path.insert(0, os.environ.get("VERIF_REPO", "/repo"))
sys.path.insert(0, os.path.dirname(os.path.dirname(os.path.abspath(__file__))))
import asyncstdlib  # noqa: E402


def _code_lines(path):
    """Lines inside function bodies (module and class level code runs at import time, before monitoring starts)."""
    src = open(path).read()
    lines = set()
    stack = [compile(src, path, "exec")]
    while stack:
        code = stack.pop()
        if code.co_flags & 0x1:  # CO_OPTIMIZED: a function, generator, coroutine or comprehension
            first = code.co_firstlineno
            for _, _, line in code.co_lines():
                if line is not None and line != first:
                    lines.add(line)
        for const in code.co_consts:
            if hasattr(const, "co_code"):
                stack.append(const)
    return lines


root = os.path.dirname(asyncstdlib.__file__)
hit = {}
taken = set()
for name in os.listdir(sys.argv[1]):
    for fn, lines in json.load(open(os.path.join(sys.argv[1], name))).items():
        if fn == "__branches__":
            taken.update(lines)
        else:
            hit.setdefault(fn, set()).update(lines)
for fn in sorted(os.listdir(root)):
    if not fn.endswith(".py"):
        continue
    path = os.path.join(root, fn)
    total = _code_lines(path)
    missing = sorted(total - hit.get(fn, set()))
    src = open(path).read().split("\n")
    print(f"== {fn}: {len(total) - len(missing)}/{len(total)} code lines reached")
    for ln in missing:
        print(f"   {ln:4d}  {src[ln - 1].rstrip()[:110]}")


def half_taken():
    """Conditional jumps of which only one destination was ever taken (needs REACH_BRANCH=1 while running)."""
    import dis
    by_src = {}
    for rec in taken:
        fn, qual, first, src, dst = rec.rsplit("|", 4)
        by_src.setdefault((fn, qual, int(first), int(src)), set()).add(int(dst))
    print("== conditional jumps with a single destination observed")
    for fn in sorted(os.listdir(root)):
        if not fn.endswith(".py"):
            continue
        path = os.path.join(root, fn)
        src_lines = open(path).read().split("\n")
        stack = [compile(open(path).read(), path, "exec")]
        while stack:
            code = stack.pop()
            stack.extend(c for c in code.co_consts if hasattr(c, "co_code"))
            if not code.co_flags & 0x1:
                continue
            for ins in dis.get_instructions(code):
                if "JUMP_IF" in ins.opname or ins.opname in ("FOR_ITER", "SEND", "END_ASYNC_FOR"):
                    seen = by_src.get((fn, code.co_qualname, code.co_firstlineno, ins.offset), set())
                    if len(seen) == 1 and ins.opname not in ("SEND",):
                        line = ins.positions.lineno if ins.positions else None
                        jumped = ins.argval in seen
                        print(f"   {fn}:{line} {code.co_qualname} {ins.opname}: only the "
                              f"{'jump' if jumped else 'fall-through'} was taken :: {src_lines[line - 1].strip()[:90] if line else ''}")


if taken:
    half_taken()
