"""C18 — cancellation anywhere leaves no leaked source, held lock or poisoned cache."""
from __future__ import annotations

import random
from collections import Counter

from .. import gen
from ..loop import Cancel, FalsyCancel
from ..tools import run_async_side
from . import C18_special as special

ID = "C18"
LEVEL = "fault_enumeration"
ANCHORS = ["_core.py", "builtins.py", "itertools.py", "heapq.py", "functools.py", "_lrucache.py", "contextlib.py",
           "asynctools.py"]
RULE = ("crash-point enumeration: a fault-free run of each scenario counts its N suspension points (sources suspend in "
        "__anext__, callables in their awaited part, locks when contended, context managers in enter/exit); then EACH "
        "i in 1..N is cancelled by throwing a unique Cancel (BaseException) at that suspension. Oracle: the same "
        "object leaves the operation; after the owner closed the library iterator every closable async source is "
        "closed or exhausted; every VLock is free; ExitStack exits ran exactly once with the in-flight exception a "
        "nested async-with reference gives; lru_cache / cached_property hold no partial entry and pass a sequential "
        "epilogue. Scenarios: all iterator tools and aggregations x inputs of length 0..3 x {async_gen, async_class} "
        "sources, tee with lock, lru_cache, cached_property with lock, ExitStack, scoped_iter blocks. one evaluation "
        "= one cancelled run; non-trivial = cancellation hit while a closable source/lock/stack entry was live; "
        "distinct = (scenario, i)")
RULE += (' Also: sources without aclose, adapters, future-like sources; after a cancelled tee child the other children are read to their end (nothing poisoned); lru scenarios with several overlapping tasks.')
RULE += (' Also: cached_property with and without lock, a deleting task, two awaiters cancelled at all pairs of their suspension points; the run without cancellation is judged as well.')
RULE += (' Also: tee scenarios in which the cancelled child is the last live one (siblings closed first; n=1).')
RULE += (' Also: scoped scenarios over the __getattr__-forwarding adapter.')
RULE += (' Also: stacks unwound by aclose() instead of a with-block.')
RULE += (' Also: an advance into which the cancellation was thrown must not hand out an item; re-iterable and lazily set-up sources.')
RULE += (' Also: every other cancellation object tests false.')
RULE += (' Also: adapters that offer aclose only once they were advanced.')
ASSUMPTIONS = ["user cleanup (source aclose, lock release) does not itself suspend",
               "an async-generator source cancelled inside its own await dies with the cancellation (language semantics)"]
EXHAUSTIVE = {"quick": False, "thorough": False}
N_SPECS = {"quick": 6000, "thorough": 300000}


# multi-source tools over sources of very unequal lengths incl. EMPTY ones at every position: bookkeeping by
# position (which source ended, which are still to be closed) must survive sources dropping out
UNEQUAL = [[[], [0, 1, 2, 3], [0]], [[0], [], [0, 1, 2]], [[0, 1, 2], [0], []], [[], [], [0, 1]], [[0, 1, 2, 3], [1]], [[2], [0, 1, 2, 3]]]


def cases(tier, seed, shard, nshards):
    k = 0
    for tool, params in (("merge", {}), ("zip_longest", {}), ("chain", {}), ("zip", {}), ("map", {})):
        for srcs in UNEQUAL:
            for fl in ("async_class", "async_gen"):
                k += 1
                if k % nshards == shard:
                    spec = {"tool": tool, "srcs": [list(x) for x in srcs], "fns": ["mk"] if tool == "map" else
                            [None] if tool == "merge" else [], "params": dict(params)}
                    yield {"kind": "tool", "spec": spec, "flav": [fl] * len(srcs), "susp": 1, "fn_susp": 0, "fnfl": "async_def"}
    rng = random.Random(f"C18-{seed}-{shard}")
    n = N_SPECS[tier] // nshards
    names = [x for x in gen.ITER_TOOL_NAMES if x != "iter_sentinel"] + gen.AGG_NAMES
    for i in range(n):
        name = names[i % len(names)]
        if name in gen.AGG_NAMES:
            spec = gen.agg_spec(rng, name, 3)
            if spec.get("raw"):
                continue
        else:
            spec = gen.iter_spec(rng, name, 3)
            if name == "cycle":
                spec["steps"] = rng.randint(1, 6)
        # (... also re-iterables that hand out a separate iterator per request - the one the tool advanced is the one
        # that must be released - and sources that set themselves up when asked for their iterator)
        flav = [rng.choice(["async_gen", "async_class", "async_class", "async_class_bare", "async_class_proxy",
                            "async_class_future", "async_iterable", "async_class_lazy", "async_class_closejob", "async_class_lateclose"]) for _ in spec["srcs"]]
        yield {"kind": "tool", "spec": spec, "flav": flav, "susp": rng.choice([1, 1, 2]), "fn_susp": rng.choice([0, 1]),
               "fnfl": "async_def"}
    yield from special.cases(tier, seed, shard, nshards, rng)


def run_tool(case, stats):
    spec = case["spec"]
    tool = spec["tool"]
    flav = list(case["flav"])
    nfn = len(spec.get("fns", []))
    fnfl = [case.get("fnfl", "async_def")] * nfn
    outer = "async_class"
    kw = dict(flavours=flav, fn_flavours=fnfl, log=False, outer_flavour=outer, susp=case["susp"], fn_susp=case["fn_susp"],
              steps=spec.get("steps"), close_after=True)
    base = run_async_side(spec, **kw)
    n = base.suspensions
    viols, sigs, evals = [], [], 0
    head = f"{tool} {spec['params']} srcs={spec['srcs']} flav={flav} susp={case['susp']}/{case['fn_susp']}"
    for i in range(1, n + 1):
        exc = (FalsyCancel if i % 2 == 0 else Cancel)()  # (every other cancellation object tests false)
        side = run_async_side(spec, cancel_at=i, cancel_exc=exc, **kw)
        evals += 1
        stats["cancellations"] += 1
        sigs.append((spec, flav, case["susp"], case["fn_susp"], i))
        if side.foreign:
            viols.append({"key": f"{tool}/foreign-suspension", "msg": side.foreign[0]})
        if tuple(side.term[:3]) != ("raise", type(exc).__name__, True):
            if side.term[0] == "aclose-raised":
                viols.append({"key": f"{tool}/aclose-raises-after-cancel", "msg": f"{head} cancel@{i}: {side.term}"})
            else:
                viols.append({"key": f"{tool}/cancel-not-propagated",
                              "msg": f"{head} cancel@{i}/{n}: operation ended with {side.term} instead of the Cancel object"})
            continue
        leaked = []
        srcs = side.srcs
        if tool == "chain_from_iterable":
            o = srcs[-1]
            pairs = list(zip(srcs[:-1][:o.pos], flav[:o.pos])) + [(o, outer)]
        else:
            pairs = list(zip(srcs, flav))
        for st, f in pairs:
            if f == "async_iterable" and not st.given:
                continue  # (never asked for an iterator: nothing anybody could own)
            if f == "async_class_lateclose" and not st.started:
                continue  # (an adapter that was never advanced has not opened anything yet)
            if f != "async_class_bare" and not st.released():  # (an iterator without aclose cannot be released)
                leaked.append(st.sid)
        if leaked:
            stats["leaks_seen"] += 1
            viols.append({"key": f"{tool}/leak-after-cancel",
                          "msg": f"{head} cancel@{i}/{n}: sources {leaked} still open after cancellation and close",
                          "detail": {"cancel_at": i}})
    stats[f"specs_{tool}"] += 1
    if n:
        stats["specs_with_suspensions"] += 1
    return {"violations": viols, "evals": max(1, evals), "sigs": sigs}


def run_case(case, stats: Counter):
    if case["kind"] == "tool":
        return run_tool(case, stats)
    return special.run_case(case, stats)


def finish(stats, tier):
    for need in ("cancellations", "specs_with_suspensions") + special.NEED:
        if not stats.get(need):
            return f"deciding counter {need} is zero"
    return None
