"""C03 — async neutrality: sync and async arguments are interchangeable."""
from __future__ import annotations

import inspect
import itertools
import random
from collections import Counter

from .. import gen
from ..loop import CTX, drive
from ..tools import run_async_side, Fault

ID = "C03"
LEVEL = "exploration"
ANCHORS = ["_core.py", "builtins.py", "itertools.py", "heapq.py", "functools.py", "contextlib.py"]
RULE = ("metamorphic: each call spec (all iterator tools, groupby operation sequences incl. a key that fails once and "
        "continued use afterwards, aggregations, reduce; ExitStack exit callables) is run once "
        "with every iterable a list and every callable a def, then under flavour vectors assigning "
        "{list, getitem_seq, sync_iter, async_gen, async_class} to each iterable and {def, async def, partial(async "
        "def), callable object returning a coroutine, object returning a custom awaitable} to each callable - ALL "
        "vectors when there are <= 3 flavoured parameters, a seeded sample otherwise; outputs, termination and the "
        "callable call log must equal the baseline; plus the return-kind table: every name in asyncstdlib.__all__ "
        "must return an awaitable / async iterator / async context manager for sync-only and async-only arguments; "
        "one evaluation = one variant run; non-trivial = variant with at least one non-baseline flavour on a "
        "non-empty input; distinct = (spec, flavour vector)")
RULE += (' Also: source flavours async_class_bare / async_class_future (non-coroutine awaitable from __anext__) ; ExitStack variants with enter_context of plain vs asynchronous managers whose enter may fail; all probe class sources, locks and callable objects are falsy and report len() == 0.')
RULE += (' Also: a callable that fails at its k-th call (incl. StopIteration / StopAsyncIteration) for every flavour of callable.')
RULE += (' Also: a source failing at its k-th use (AttributeError, TypeError, KeyError, ...) for every flavour of source; asynctools.any_iter; iterables that are not iterators.')
RULE += (' Also: scoped_iter blocks (closing tools on the handle, then the rest) over every flavour of source.')
RULE += (' Also: a context decorator around every flavour of awaitable-returning callable, incl. one doing its work when called.')
RULE += (" Also: managers' enter values that are awaitable payload (ExitStack scenario).")
RULE += (' Also: the same exit callable / manager registered twice on an ExitStack (two registrations, two runs, whatever the flavour).')
RULE += (' Also: the plain-__anext__ source flavour (fails AND ends at the call).')
RULE += (' Also: callables that are classes (calling creates an awaitable job).')
RULE += (' Also: sources failing with a RuntimeError caused by Stop(Async)Iteration; a sized class source.')
RULE += (' Also: a synchronous mapping handed over as an iterable (iterated over its keys; never asked for values, keys() or items()).')
RULE += (' Also: managers whose enter swaps the exit their instance answers with (the exit taken together with the manager runs, in both flavours).')
ASSUMPTIONS = ["baseline (list + def) behaviour itself is judged by C01/C02, not here"]
EXHAUSTIVE = {"quick": False, "thorough": False}
N_SPECS = {"quick": 6000, "thorough": 200000}
SRC_FL = ["list", "getitem_seq", "sync_iter", "async_gen", "async_class", "async_class_bare", "async_class_future", "async_class_lazy", "async_iterable", "sync_iterable", "async_class_plainnext", "async_class_sized", "sync_mapping"]
FN_FL = ["def", "async_def", "partial", "callobj", "awaitobj", "classobj"]


CALL_FAULTS = ["StopIteration", "StopAsyncIteration", "StopIteration", "ValueError", "TypeError", "KeyError", "LookupError",
               "AttributeError", "Injected", "InjectedBase", "RuntimeError"]


SRC_FAULTS = ["AttributeError", "TypeError", "KeyError", "ValueError", "LookupError", "RuntimeError", "Injected", "InjectedBase", "RuntimeError_caused_by_StopIteration",
              "RuntimeError_caused_by_StopAsyncIteration"]
# flavours that can be made to fail at their k-th use (a plain list / tuple cannot; for a __getitem__ sequence an
# IndexError / LookupError subclass is the end signal)
FAULTABLE = ["sync_iter", "async_gen", "async_class", "async_class_bare", "async_class_future", "async_class_lazy",
             "async_iterable", "sync_iterable", "sync_mapping"]


def _call_fault(case):
    if "src_fault" in case:
        from ..probes import FAULT_TYPES
        idx, use, name = case["src_fault"]
        return Fault("src", idx, use, FAULT_TYPES[name]("injected"), "call")
    if "fault" not in case:
        return None
    from ..probes import FAULT_TYPES
    idx, use, name = case["fault"]
    types = dict(FAULT_TYPES, StopIteration=StopIteration, StopAsyncIteration=StopAsyncIteration)
    return Fault("fn", idx, use, types[name]("injected"), "call")


def cases(tier, seed, shard, nshards):
    if shard == 0:
        yield {"kind": "return-kinds"}
    k = 0
    for manager in ("class", "generator"):
        for fail in (False, True):
            for suppress in (False, True):
                for susp in (0, 1):
                    k += 1
                    if k % nshards == shard:
                        yield {"kind": "decorated", "manager": manager, "fail": fail, "suppress": suppress, "susp": susp}
    for n in range(0, 8):
        for b in range(len(SCOPED_BLOCKS)):
            k += 1
            if k % nshards == shard:
                yield {"kind": "scoped", "keys": [(3 * i + 1) % 4 for i in range(n)], "block": b}
    rng = random.Random(f"C03-{seed}-{shard}")
    n = N_SPECS[tier] // nshards
    names = gen.ITER_TOOL_NAMES + gen.AGG_NAMES + ["any_iter"]
    for i in range(n):
        name = names[i % len(names)]
        if name == "any_iter":
            spec = {"tool": "any_iter", "srcs": [gen.keys_seq(rng, 5)], "fns": [], "params": {}}
        else:
            spec = gen.agg_spec(rng, name, 5) if name in gen.AGG_NAMES else gen.iter_spec(rng, name, 5)
        case = {"kind": "tool", "spec": spec, "vseed": rng.randrange(1 << 30), "maxvec": 60 if tier == "quick" else 500}
        live = [k for k, f in enumerate(spec.get("fns", [])) if f is not None]
        if live and rng.random() < 0.35:
            # the callable fails at its k-th call: every flavour of callable must make the tool end the same way --
            # also when what it raises is StopIteration / StopAsyncIteration, which a plain function raises
            # directly into the caller's frame and a coroutine cannot
            case["fault"] = [rng.choice(live), rng.choice([1, 1, 2, 3]), rng.choice(CALL_FAULTS)]
        elif spec["srcs"] and name != "iter_sentinel" and not spec.get("same") and rng.random() < 0.25:
            # one SOURCE fails at its k-th use: whatever it raises comes out the same for every flavour of source
            # (also an AttributeError / TypeError / KeyError, which a library may be tempted to take for its own)
            # (uses 1 .. len+1: the items and the FIRST end-of-source check; later polls of an exhausted source are
            # made by some flavours of wrapping only, see C06)
            si = rng.randrange(len(spec["srcs"]))
            case["src_fault"] = [si, rng.randint(1, len(spec["srcs"][si]) + 1), rng.choice(SRC_FAULTS)]
        yield case
    from . import C16
    k16 = 0
    for gb in C16.cases(tier, seed, shard, nshards):
        k16 += 1
        if k16 % 40 == 0 and gb["key"] is not None and len(gb["ops"]) <= 10:
            yield {"kind": "groupby", "gb": dict(gb, key="half", susp=0), "fault_at": rng.choice([None, 1, 1, 2, 3]),
                   "exc": rng.choice(["ValueError", "TypeError", "Injected"])}
    for i in range(max(1, n // 6)):
        entries = []
        for _ in range(rng.randint(1, 3)):
            kind = rng.choice(["push", "callback", "enter"])
            beh = rng.choice(["falsy", "truthy", "raise"] + (["enter_raises", "enter_raises_truthy"] if kind == "enter" else []))
            entries.append([kind, beh])
        yield {"kind": "exitstack", "entries": entries, "body_raises": rng.random() < 0.6, "catch_enter": rng.random() < 0.5,
               # the SAME exit handler / manager object registered twice (two resources released by one function,
               # a reusable manager entered twice): two registrations, two runs - whatever the flavour
               "dup": rng.random() < 0.35,
               # managers whose exit is a staticmethod / classmethod (a class-level resource), callbacks registered
               # without any arguments: the flavours still agree
               "bind": rng.choice(["method", "method", "static", "class", "rearm"]), "noargs": rng.random() < 0.3,
               "enter_exc": rng.choice(["EnterFailed", "AttributeError", "TypeError", "LookupError"])}


def _vectors(nsrc, nfn, rng, maxvec):
    total = len(SRC_FL) ** nsrc * len(FN_FL) ** nfn
    if nsrc + nfn <= 3 and total <= maxvec:
        for sv in itertools.product(SRC_FL, repeat=nsrc):
            for fv in itertools.product(FN_FL, repeat=nfn):
                yield list(sv), list(fv), True
    else:
        seen = set()
        for _ in range(min(maxvec, total)):
            sv = tuple(rng.choice(SRC_FL) for _ in range(nsrc))
            fv = tuple(rng.choice(FN_FL) for _ in range(nfn))
            if (sv, fv) in seen:
                continue
            seen.add((sv, fv))
            yield list(sv), list(fv), False


def _calls(log):
    return [e for e in log if e[0] == "call"]


def run_tool(case, stats):
    spec = case["spec"]
    tool = spec["tool"]
    nsrc = len(spec["srcs"])
    fns = spec.get("fns", [])
    nfn = len(fns)
    live_fn = [i for i, f in enumerate(fns) if f is not None]
    steps = spec.get("steps")
    base_fl = ["list"] * nsrc
    if "src_fault" in case:
        base_fl[case["src_fault"][0]] = "sync_iter"
        stats["specs_with_a_failing_source"] += 1
    base = run_async_side(spec, flavours=base_fl, fn_flavours=["def"] * nfn, steps=steps, outer_flavour="list",
                          fault=_call_fault(case))
    if "fault" in case:
        stats["specs_with_a_failing_callable"] += 1
        stats[f"callable_raises_{case['fault'][2]}"] += 1
    rng = random.Random(case["vseed"])
    viols, sigs, evals = [], [], 0
    nonempty = any(spec["srcs"]) if spec["srcs"] else False
    for sv, fv, complete in _vectors(nsrc, len(live_fn), rng, case.get("maxvec", 60)):
        fvec = ["def"] * nfn
        for i, fl in zip(live_fn, fv):
            fvec[i] = fl
        if "src_fault" in case and sv[case["src_fault"][0]] not in FAULTABLE:
            sv = list(sv)
            sv[case["src_fault"][0]] = rng.choice(FAULTABLE)
        if list(sv) == base_fl and all(f == "def" for f in fvec):
            continue
        evals += 1
        if complete:
            stats["variants_from_complete_vector_sets"] += 1
        outer = sv[0] if sv and sv[0] in ("list", "async_gen", "async_class", "sync_iter") else "list"
        var = run_async_side(spec, flavours=sv, fn_flavours=fvec, steps=steps, outer_flavour=outer, fault=_call_fault(case))
        stats["variant_runs"] += 1
        for f in set(sv):
            stats[f"src_{f}"] += 1
        for f in set(fvec):
            stats[f"fn_{f}"] += 1
        if nonempty:
            sigs.append((spec, sv, fvec))
        problem = None
        if var.foreign:
            problem = ("foreign-suspension", var.foreign[0])
        elif list(var.out) != list(base.out):
            problem = ("items", "")
        elif tuple(var.term[:3]) != tuple(base.term[:3]):
            problem = ("result", "")
        elif _calls(var.log) != _calls(base.log):
            problem = ("calls", "")
        if problem:
            key = f"{tool}/{problem[0]}"
            if tool == "sorted" and not (fns and fns[0]) and base.term[0] == "raise" and base.term[1] == "TypeError":
                key = "sorted/fastpath-swallows-TypeError"
            viols.append({"key": key,
                          "msg": f"{tool} {spec['params']} fns={fns} srcs={spec['srcs']}: flavours {sv}/{fvec} give "
                                 f"{len(var.out)} items, {var.term}; baseline list/def gives {len(base.out)} items, "
                                 f"{base.term} {problem[1]}",
                          "detail": {"flavours": [sv, fvec], "baseline": [base.out, base.term], "variant": [var.out, var.term]}})
    stats[f"specs_{tool}"] += 1
    return {"violations": viols, "evals": max(1, evals), "sigs": sigs}


# ---------------------------------------------------------------------------
# ExitStack exit callables of every flavour
# ---------------------------------------------------------------------------

def run_exitstack(case, stats):
    import asyncstdlib as A
    from ..probes import FnState, make_fn
    from ..tools import AwaitablePayload

    entries = case["entries"]

    class EnterFailed(Exception):
        pass

    ENTER_EXC = {"EnterFailed": EnterFailed, "AttributeError": AttributeError, "TypeError": TypeError,
                 "LookupError": LookupError}
    ENTER_TYPES = tuple(ENTER_EXC.values())

    def make_cm(i, beh, fl):
        def enter():
            CTX.ev("cm-enter", i)
            if beh.startswith("enter_raises"):
                # (what the enter fails with: also the very exception types a library's own protocol probing may catch)
                raise ENTER_EXC[case.get("enter_exc", "EnterFailed")](f"enter {i} failed")
            # (what a manager's enter gives may itself happen to be awaitable - a handle, a future: the stack hands it on)
            return AwaitablePayload(("cm", i))

        def leave(et, ev, tb):
            CTX.ev("cm-exit", i, et.__name__ if et else None)
            if beh == "raise":
                raise LookupError(f"exit {i}")
            return beh in ("truthy", "enter_raises_truthy")

        class SyncCM:
            def __enter__(self):
                return enter()

            def __exit__(self, et, ev, tb):
                return leave(et, ev, tb)

        class AsyncCM:
            async def __aenter__(self):
                return enter()

            async def __aexit__(self, et, ev, tb):
                return leave(et, ev, tb)

        class SyncStatic:
            def __enter__(self):
                return enter()

            @staticmethod
            def __exit__(et, ev, tb):
                return leave(et, ev, tb)

        class AsyncStatic:
            async def __aenter__(self):
                return enter()

            @staticmethod
            async def __aexit__(et, ev, tb):
                return leave(et, ev, tb)

        class SyncClass:
            def __enter__(self):
                return enter()

            @classmethod
            def __exit__(cls, et, ev, tb):
                return leave(et, ev, tb)

        class AsyncClass:
            async def __aenter__(self):
                return enter()

            @classmethod
            async def __aexit__(cls, et, ev, tb):
                return leave(et, ev, tb)

        class SyncRearm(SyncCM):
            # entering swaps the exit the INSTANCE answers with: which one runs is decided when the stack takes the manager
            def __enter__(self):
                self.__exit__ = lambda et, ev, tb: CTX.ev("cm-exit-rearmed", i) or True
                return enter()

        class AsyncRearm(AsyncCM):
            async def __aenter__(self):
                async def rearmed(et, ev, tb):
                    return CTX.ev("cm-exit-rearmed", i) or True
                self.__aexit__ = rearmed
                return enter()

        bind = case.get("bind", "method")
        if bind == "rearm":
            return SyncRearm() if fl == "def" else AsyncRearm()
        if bind == "static":
            return SyncStatic() if fl == "def" else AsyncStatic()
        if bind == "class":
            return SyncClass() if fl == "def" else AsyncClass()
        return SyncCM() if fl == "def" else AsyncCM()

    def execute(fvec):
        CTX.reset()
        body_exc = KeyError("body")
        states = []

        async def main():
            stack = A.ExitStack()
            outcome = None
            try:
                async with stack:
                    for i, ((kind, beh), fl) in enumerate(zip(entries, fvec)):
                        if kind == "enter":
                            # a context manager handed to enter_context: plain ("def") or asynchronous flavour
                            try:
                                cm = make_cm(i, beh, fl)
                                value = await stack.enter_context(cm)
                                CTX.ev("entered", i, value)
                                if case.get("dup"):
                                    value = await stack.enter_context(cm)
                                    CTX.ev("entered", i, value)
                                    stack.push(cm)
                            except ENTER_TYPES as err:
                                if not case.get("catch_enter") or not str(err).startswith("enter "):
                                    raise
                                CTX.ev("enter-failure-handled", i)
                            continue

                        def impl(*args, _beh=beh, _i=i, **kw):
                            if _beh == "raise":
                                raise LookupError(f"exit {_i}")
                            return _beh == "truthy"
                        fs = FnState(f"exit{i}", impl)
                        states.append(fs)
                        fn = make_fn(fs, fl)
                        if kind == "push":
                            r = stack.push(fn)
                            if case.get("dup"):
                                r = stack.push(fn)
                        elif case.get("noargs"):
                            r = stack.callback(fn)
                            if case.get("dup"):
                                r = stack.callback(fn)
                        else:
                            r = stack.callback(fn, "arg", kw=i)
                            if case.get("dup"):
                                r = stack.callback(fn, "arg", kw=i)
                        if r is not fn:
                            CTX.ev("push-returned-other")
                    if case["body_raises"]:
                        raise body_exc
            except BaseException as exc:  # noqa: BLE001
                outcome = ("raise", type(exc).__name__, exc is body_exc, str(exc))
            else:
                outcome = ("ok",)
            return outcome

        outcome = drive(main())
        trace = []
        for e in CTX.log:
            if e[0] == "call":
                # exception arguments are compared by type name only (canon gives ("E", name))
                trace.append((e[1], tuple(str(x[1] if x[0] == "v" else x[0]) for x in e[2][1:])))
            elif e[0] in ("cm-enter", "cm-exit", "cm-exit-rearmed", "entered", "enter-failure-handled"):
                trace.append(tuple(map(str, e)))
        return outcome, trace, list(CTX.foreign)

    base = execute(["def"] * len(entries))
    viols, sigs, evals = [], [], 0
    options = [FN_FL if kind != "enter" else ["def", "async_def"] for kind, _ in entries]
    for fvec in itertools.product(*options):
        if all(f == "def" for f in fvec):
            continue
        evals += 1
        stats["exitstack_variant_runs"] += 1
        var = execute(list(fvec))
        sigs.append((entries, case["body_raises"], fvec))
        if var != base:
            viols.append({"key": "ExitStack/exit-callable-flavour",
                          "msg": f"ExitStack entries={entries} body_raises={case['body_raises']} flavours={fvec}: "
                                 f"{var} differs from def baseline {base}"})
    return {"violations": viols, "evals": max(1, evals), "sigs": sigs}


# ---------------------------------------------------------------------------
# return kinds
# ---------------------------------------------------------------------------

def _kind(obj):
    kinds = []
    if inspect.isawaitable(obj):
        kinds.append("awaitable")
    if hasattr(obj, "__anext__") and hasattr(obj, "__aiter__"):
        kinds.append("aiter")
    if hasattr(obj, "__aenter__") and hasattr(obj, "__aexit__"):
        kinds.append("acm")
    return kinds


def _dispose(obj):
    if inspect.iscoroutine(obj):
        obj.close()


def run_kinds(stats):
    import asyncstdlib as A

    async def agen(items=(1, 2)):
        for x in items:
            yield x

    async def afn(*a, **k):
        return a[0] if a else None

    async def apair(a, b):
        return a

    def sfn(*a, **k):
        return a[0] if a else None

    async def anull():
        return 1

    def nullf():
        return 1

    class CM:
        async def __aenter__(self):
            return self

        async def __aexit__(self, *a):
            return False

    class SCM:
        def __enter__(self):
            return self

        def __exit__(self, *a):
            return False

    # name -> list of (thunk) producing the returned object; sync-flavoured and async-flavoured args
    S, AS = (lambda: [1, 2]), (lambda: agen())
    table = {
        "anext": ("awaitable", [lambda: A.anext(agen())]),
        "zip": ("aiter", [lambda: A.zip(S(), S()), lambda: A.zip(AS(), AS())]),
        "map": ("aiter", [lambda: A.map(sfn, S()), lambda: A.map(afn, AS())]),
        "filter": ("aiter", [lambda: A.filter(sfn, S()), lambda: A.filter(afn, AS()), lambda: A.filter(None, S())]),
        "enumerate": ("aiter", [lambda: A.enumerate(S()), lambda: A.enumerate(AS())]),
        "iter": ("aiter", [lambda: A.iter(S()), lambda: A.iter(AS()), lambda: A.iter(nullf, 1), lambda: A.iter(anull, 1)]),
        "all": ("awaitable", [lambda: A.all(S()), lambda: A.all(AS())]),
        "any": ("awaitable", [lambda: A.any(S()), lambda: A.any(AS())]),
        "max": ("awaitable", [lambda: A.max(S()), lambda: A.max(AS(), key=afn)]),
        "min": ("awaitable", [lambda: A.min(S()), lambda: A.min(AS(), key=afn)]),
        "sum": ("awaitable", [lambda: A.sum(S()), lambda: A.sum(AS())]),
        "list": ("awaitable", [lambda: A.list(S()), lambda: A.list(AS()), lambda: A.list()]),
        "dict": ("awaitable", [lambda: A.dict([(1, 2)]), lambda: A.dict(agen([(1, 2)])), lambda: A.dict(), lambda: A.dict(a=1)]),
        "set": ("awaitable", [lambda: A.set(S()), lambda: A.set(AS()), lambda: A.set()]),
        "tuple": ("awaitable", [lambda: A.tuple(S()), lambda: A.tuple(AS()), lambda: A.tuple()]),
        "sorted": ("awaitable", [lambda: A.sorted(S()), lambda: A.sorted(AS()), lambda: A.sorted(S(), key=afn)]),
        "reduce": ("awaitable", [lambda: A.reduce(sfn, S()), lambda: A.reduce(apair, AS())]),
        "lru_cache": ("awaitable", [lambda: A.lru_cache(afn)(1), lambda: A.lru_cache(maxsize=0)(afn)(1),
                                    lambda: A.lru_cache(maxsize=None)(afn)(1)]),
        "cache": ("awaitable", [lambda: A.cache(afn)(1)]),
        "cached_property": ("awaitable", [lambda: type("X", (), {"p": _named(A.cached_property(afn), "p")})().p]),
        "closing": ("acm", [lambda: A.closing(agen())]),
        "ContextDecorator": ("awaitable", [lambda: type("D", (A.ContextDecorator,), {"__aenter__": CM.__aenter__, "__aexit__": CM.__aexit__})()(afn)(1)]),
        "contextmanager": ("acm", [lambda: A.contextmanager(agen)()]),
        "nullcontext": ("acm", [lambda: A.nullcontext(1)]),
        "ExitStack": ("acm", [lambda: A.ExitStack()]),
        "ExitStack.enter_context": ("awaitable", [lambda: A.ExitStack().enter_context(CM()), lambda: A.ExitStack().enter_context(SCM())]),
        "ExitStack.aclose": ("awaitable", [lambda: A.ExitStack().aclose()]),
        "accumulate": ("aiter", [lambda: A.accumulate(S()), lambda: A.accumulate(AS(), apair)]),
        "batched": ("aiter", [lambda: A.batched(S(), 2), lambda: A.batched(AS(), 2)]),
        "cycle": ("aiter", [lambda: A.cycle(S()), lambda: A.cycle(AS())]),
        "chain": ("aiter", [lambda: A.chain(S(), S()), lambda: A.chain(AS()), lambda: A.chain.from_iterable([S()]),
                            lambda: A.chain.from_iterable(agen([[1]]))]),
        "compress": ("aiter", [lambda: A.compress(S(), S()), lambda: A.compress(AS(), AS())]),
        "dropwhile": ("aiter", [lambda: A.dropwhile(sfn, S()), lambda: A.dropwhile(afn, AS())]),
        "filterfalse": ("aiter", [lambda: A.filterfalse(sfn, S()), lambda: A.filterfalse(afn, AS()), lambda: A.filterfalse(None, S())]),
        "takewhile": ("aiter", [lambda: A.takewhile(sfn, S()), lambda: A.takewhile(afn, AS())]),
        "islice": ("aiter", [lambda: A.islice(S(), 1), lambda: A.islice(AS(), 1)]),
        "starmap": ("aiter", [lambda: A.starmap(sfn, [(1,)]), lambda: A.starmap(afn, agen([(1,)]))]),
        "tee": ("acm", [lambda: A.tee(S()), lambda: A.tee(AS())]),
        "tee.child": ("aiter", [lambda: A.tee(S())[0], lambda: A.tee(AS())[1]]),
        "pairwise": ("aiter", [lambda: A.pairwise(S()), lambda: A.pairwise(AS())]),
        "zip_longest": ("aiter", [lambda: A.zip_longest(S(), S()), lambda: A.zip_longest(AS(), S())]),
        "groupby": ("aiter", [lambda: A.groupby(S()), lambda: A.groupby(AS(), key=afn), lambda: A.groupby(S(), key=sfn)]),
        "borrow": ("aiter", [lambda: A.borrow(agen())]),
        "scoped_iter": ("acm", [lambda: A.scoped_iter(S()), lambda: A.scoped_iter(AS())]),
        "await_each": ("aiter", [lambda: A.await_each([])]),
        "any_iter": ("aiter", [lambda: A.any_iter(S()), lambda: A.any_iter(AS())]),
        "apply": ("awaitable", [lambda: A.apply(sfn)]),
        "sync": ("awaitable", [lambda: A.sync(sfn)(1), lambda: A.sync(afn)(1)]),
        "merge": ("aiter", [lambda: A.merge(S(), S()), lambda: A.merge(AS(), AS(), key=afn)]),
        "nlargest": ("awaitable", [lambda: A.nlargest(S(), 1), lambda: A.nlargest(AS(), 1, key=afn)]),
        "nsmallest": ("awaitable", [lambda: A.nsmallest(S(), 1), lambda: A.nsmallest(AS(), 1, key=afn)]),
    }
    viols = []
    sigs = []
    missing = [n for n in A.__all__ if n not in table]
    if missing:
        viols.append({"key": "return-kinds/table-incomplete", "msg": f"public names without a row: {missing}"})
    n = 0
    for name, (want, thunks) in table.items():
        for i, thunk in enumerate(thunks):
            n += 1
            obj = thunk()
            kinds = _kind(obj)
            sigs.append(("kind", name, i))
            stats["return_kind_checks"] += 1
            if want not in kinds:
                viols.append({"key": f"{name}/returns-plain-value",
                              "msg": f"{name} variant {i} returned {type(obj).__name__} (kinds {kinds}), expected {want}"})
            _dispose(obj)
    return {"violations": viols, "evals": n, "sigs": sigs}


def _named(prop, name):
    prop.__set_name__(None, name)
    return prop


def run_groupby(case, stats):
    """groupby with every iterable / key flavour, incl. a key that fails once and continued use afterwards."""
    from . import C16
    from ..probes import FAULT_TYPES
    from ..tools import Fault
    gb = case["gb"]

    def side(src_fl, fn_fl):
        fault = None
        if case["fault_at"] is not None:
            fault = Fault("fn", 0, case["fault_at"], FAULT_TYPES[case["exc"]]("injected"), "call")
        r = C16.gb_side(dict(gb, flav=src_fl), False, fault=fault, fnfl=fn_fl, cont=True)
        calls = [e for e in r["log"] if e[0] == "call"]
        return r["results"], calls, r["foreign"]

    base = side("list", "def")
    viols, sigs, evals = [], [], 0
    for sv in SRC_FL:
        for fv in FN_FL:
            if (sv, fv) == ("list", "def"):
                continue
            evals += 1
            stats["variant_runs"] += 1
            stats["groupby_variant_runs"] += 1
            var = side(sv, fv)
            sigs.append(("groupby", str(gb), case["fault_at"], sv, fv))
            if var[2]:
                viols.append({"key": "groupby/foreign-suspension", "msg": var[2][0]})
            elif var[0] != base[0] or var[1] != base[1]:
                what = "results" if var[0] != base[0] else "calls"
                viols.append({"key": f"groupby/{what}",
                              "msg": f"groupby keys={gb['keys']} ops={gb['ops']} key fails at call {case['fault_at']}: "
                                     f"flavours {sv}/{fv} give {var[0]}; baseline list/def gives {base[0]}"[:1000]})
    return {"violations": viols, "evals": max(1, evals), "sigs": sigs}


SCOPED_BLOCKS = [
    ["islice2", "zip_ab", "rest"], ["takewhile_lt2", "rest"], ["next", "list"], ["islice0", "next", "min", "rest"],
    ["zip_ab", "zip_ab", "rest"], ["rest", "rest"], ["enumerate1", "next", "rest"],
]


def run_scoped(case, stats):
    """scoped_iter over every flavour of source: the same block of tool applications sees the same items, whatever
    kind of iterable the scope was opened on (a tool that closes its input never ends the scope's iterator)."""
    from ..probes import SrcState, Plan, make_source, Item
    from ..probes import canon as _canon
    import asyncstdlib as A
    keys, block = case["keys"], SCOPED_BLOCKS[case["block"]]

    def run(flav):
        CTX.reset()
        st = SrcState(0, [Item(k, (0, i), truth=k != 0) for i, k in enumerate(keys)], Plan(0), log=False)
        st.honour_close = True  # like a generator: once closed, nothing more
        src = make_source(st, flav)
        out = []

        async def main():
            async with A.scoped_iter(src) as h:
                for op in block:
                    if op == "islice2":
                        out.append([x async for x in A.islice(h, 2)])
                    elif op == "islice0":
                        out.append([x async for x in A.islice(h, 0)])
                    elif op == "zip_ab":
                        out.append([x async for x in A.zip("ab", h)])
                    elif op == "takewhile_lt2":
                        out.append([x async for x in A.takewhile(lambda x: x.key < 2, h)])
                    elif op == "enumerate1":
                        async for pair in A.enumerate(h):
                            out.append(pair)
                            break
                    elif op == "next":
                        out.append(await A.anext(h, "END"))
                    elif op == "list":
                        out.append(await A.list(h))
                    elif op == "min":
                        out.append(await A.min(h, key=lambda x: x.key, default="EMPTY"))
                    else:
                        out.append([x async for x in h])

        try:
            drive(main())
            term = ("ok",)
        except BaseException as exc:  # noqa: BLE001
            term = ("raise", type(exc).__name__)
        return _canon(out), term, list(CTX.foreign)

    base = run("list")
    if base[1] != ("ok",):
        raise RuntimeError(f"scoped scenario over a plain list ended with {base[1]}")  # a harness problem
    viols, sigs = [], []
    for flav in SRC_FL:
        if flav == "list":
            continue
        got = run(flav)
        stats["scoped_iter_variant_runs"] += 1
        sigs.append(("scoped", str(keys), case["block"], flav))
        if got[2]:
            viols.append({"key": "scoped_iter/foreign-suspension", "msg": f"scoped_iter over {flav} keys={keys} block={block}: {got[2][0]}"})
        elif got[:2] != base[:2]:
            viols.append({"key": "scoped_iter/result", "msg": f"scoped_iter over {flav} keys={keys} block={block}: {got[:2]} vs over a list {base[:2]}"[:900]})
    return {"violations": viols, "evals": len(SRC_FL) - 1, "sigs": sigs}


def run_decorated(case, stats):
    """A context manager used as a DECORATOR around every flavour of awaitable-returning callable: the call - also
    one that does its work right away and hands back an already computed awaitable - happens inside the context."""
    import asyncstdlib as A
    from ..probes import FnState, make_fn
    from ..loop import Suspend
    outcomes = {}
    for fl in ("async_def", "partial", "callobj", "awaitobj", "eager"):
        CTX.reset()
        events = []
        state = {"active": False}
        failure = ValueError("the body fails")

        def impl(x):
            events.append(("work", state["active"]))
            if case["fail"]:
                raise failure
            return ("result", x, state["active"])

        fs = FnState("body", impl, case["susp"])
        if fl == "eager":
            class Resolved:
                def __init__(self, value):
                    self.value = value

                def __await__(self):
                    return self.value
                    yield  # pragma: no cover

            class Eager:
                """Does its work when CALLED (validation, a cache look-up) and hands back a finished awaitable."""

                def __call__(self, x):
                    return Resolved(impl(x))

            body = Eager()
        else:
            body = make_fn(fs, fl)

        async def enter():
            events.append("enter")
            if case["susp"]:
                await Suspend("enter", 1)
            state["active"] = True

        async def leave(exc):
            events.append(("exit", type(exc).__name__ if exc is not None else None))
            state["active"] = False
            return bool(case["suppress"] and isinstance(exc, ValueError))

        if case["manager"] == "class":
            class Manager(A.ContextDecorator):
                def __bool__(self):
                    return False

                async def __aenter__(self):
                    await enter()
                    return self

                async def __aexit__(self, et, exc, tb):
                    return await leave(exc)

            deco = Manager()
        else:
            @A.contextmanager
            async def manager():
                await enter()
                try:
                    yield
                except BaseException as exc:  # noqa: BLE001
                    if not await leave(exc):
                        raise
                else:
                    await leave(None)

            deco = manager()
        decorated = deco(body)

        async def main():
            out = []
            for k in range(2):
                try:
                    out.append(("ok", await decorated(k)))
                except ValueError as exc:
                    out.append(("raise", exc is failure))
            return out

        try:
            res = drive(main())
        except BaseException as exc:  # noqa: BLE001
            res = ("raised", type(exc).__name__, str(exc)[:80])
        outcomes[fl] = (res, list(events), list(CTX.foreign))
    base = outcomes["async_def"]
    if not isinstance(base[0], list):
        raise RuntimeError(f"decorated baseline ended with {base[0]}")  # a harness problem
    viols, sigs = [], []
    for fl, got in outcomes.items():
        stats["decorated_callable_variant_runs"] += 1
        sigs.append(("decorated", str(case), fl))
        if got[2]:
            viols.append({"key": "decorator/foreign-suspension", "msg": f"decorated {fl} {case}: {got[2][0]}"})
        elif got[:2] != base[:2]:
            viols.append({"key": "decorator/result", "msg": f"context decorator around a {fl} callable {case}: {got[:2]} vs around an "
                                                          f"async def {base[:2]}"[:900]})
    return {"violations": viols, "evals": len(outcomes), "sigs": sigs}


def run_case(case, stats: Counter):
    if case["kind"] == "groupby":
        return run_groupby(case, stats)
    if case["kind"] == "decorated":
        return run_decorated(case, stats)
    if case["kind"] == "scoped":
        return run_scoped(case, stats)
    if case["kind"] == "return-kinds":
        return run_kinds(stats)
    if case["kind"] == "exitstack":
        return run_exitstack(case, stats)
    return run_tool(case, stats)


def finish(stats, tier):
    need = ["variant_runs", "return_kind_checks", "exitstack_variant_runs", "variants_from_complete_vector_sets",
            "groupby_variant_runs"]
    need += [f"src_{f}" for f in SRC_FL] + [f"fn_{f}" for f in FN_FL]
    for k in need:
        if not stats.get(k):
            return f"deciding counter {k} is zero"
    return None
