"""C19 — asynctools adapters normalise every async shape to the same plain result."""
from __future__ import annotations

import functools
import itertools
import random
from collections import Counter

import asyncstdlib as A
from ..tools import AwaitablePayload

from ..loop import CTX, drive, Suspend
from ..probes import Item, canon

ID = "C19"
LEVEL = "exploration"
ANCHORS = ["asynctools.py"]
RULE = ("any_iter: item lists of length 0..6 x {plain, coroutine, custom awaitable, Future-like awaitable that also defines __iter__} outer x {list, iterator, async iterator} x {plain, "
        "awaitable} items (all 12 shapes, exhaustive) x every number of consumer steps, awaitables suspending 0..1 "
        "times: yielded items (identity) must be the plain list prefix and item awaitables must be awaited in order, "
        "each only when its item is requested; await_each: awaitable k is awaited during the consumer's k-th request "
        "and not before, for every number of steps; apply: every split of <= 5 arguments into positional/keyword, "
        "result == func(*awaited, **awaited), awaits in positional-then-keyword order; sync: def / async def / "
        "partial / callable object returning awaitable / returning plain value: same result or exception, coroutine "
        "functions returned unchanged (identity); ALL sequences of 1..3 calls through one sync() wrapper whose callable "
        "returns a plain value, a coroutine, a custom awaitable or raises, differently per call. non-trivial = non-empty list or >= 1 argument; distinct = shape")
RULE += (' Also: every planned failure sweeps the exception type; fault cases for any_iter / await_each / apply (item, iteration step, outer awaitable, function); leftovers untouched after an early close or failure; awaitables with value equality (hashable / unhashable) given to apply.')
RULE += (' Also: a failing callable: the call sync(f)(x) itself must return an awaitable, the failure comes out of awaiting it.')
RULE += (' Also: sync() of two related callables (wraps copy, object copy, bound methods, subclass) in both orders.')
RULE += (' Also: what an awaitable resolves to may itself be awaitable payload (delivered, not awaited again).')
RULE += (' Also: a StopAsyncIteration raised by an awaitable given to await_each surfaces as RuntimeError (caused by it), the stream does not end quietly.')
RULE += (' Also: sync() of classes (plain, and with instances that have an async def __call__).')
RULE += (' Also: plain callables presenting themselves as the coroutine function they wrap (functools.wraps / __wrapped__) and returning plain values.')
RULE += (' Also: items / results that merely expose an __await__ attribute (not awaitable); concurrent.futures.Future results.')
RULE += (' Also: any_iter over objects offering both iteration protocols.')
RULE += (' Also: generator-based coroutines as awaitables of await_each; non-awaitable elements (TypeError when reached).')
RULE += (' Also: any_iter over sources that are falsy although they provide items.')
RULE += (' Also: await_each over a list extended by the consumer while it is iterated.')
RULE += (' Also: await_each over a lazy input that keeps none of its awaitables (addresses are reused).')
RULE += (' Also: a queue (deque) handed to await_each and filled further before the first request.')
RULE += (' Also: sync() of built-in callables (next, bound list.pop / dict.get, getattr, operator.getitem) handing out stored awaitables.')
RULE += (' Also: sync() wrappers called with keywords of any name (function, self, args ...) and, stored as class attributes, through instances.')
RULE += (" Also: the caller's one-shot iterator (synchronous or asynchronous) is still usable, with everything not taken, after an any_iter stream over it was closed early.")
RULE += (' Also: any_iter over an async iterator that sets itself up in __aiter__.')
RULE += (' Also: await_each over a sequence that offers __getitem__ only.')
RULE += (' Also: apply awaits its keywords in the order of the call, whatever their names.')
RULE += (' Also: sync() wrappers of two distinct callables that compare and hash equal.')
RULE += (' Also: sync() over a class whose instances are awaitable (the instance is awaited like any awaitable result).')
ASSUMPTIONS = ["direct specification oracle (no stdlib twin exists for these helpers)"]
EXHAUSTIVE = {"quick": True, "thorough": True}
MAX_SHARDS = 8


def cases(tier, seed, shard, nshards):
    idx = 0
    for n in range(0, 7):
        for outer_aw in (False, True, "awaitobj", "future_like"):
            for cont in ("list", "iterator", "aiter", "dual", "falsy_list", "lazy_setup"):
                for item_aw in (False, True, "awaitobj", "mixed", "lookalike"):
                    for steps in range(0, n + 2):
                        for susp in (0, 1):
                            idx += 1
                            if idx % nshards == shard:
                                yield {"kind": "any_iter", "n": n, "outer_aw": outer_aw, "cont": cont,
                                       "item_aw": item_aw, "steps": steps, "susp": susp}
    for n in range(0, 7):
        for steps in range(0, n + 2):
            for susp in (0, 1, 2):
                for cont in ("list", "iterator"):
                    idx += 1
                    if idx % nshards == shard:
                        yield {"kind": "await_each", "n": n, "steps": steps, "susp": susp, "cont": cont}
                        if cont == "list":
                            yield {"kind": "await_each", "n": n, "steps": steps, "susp": susp, "cont": "worklist"}
                            yield {"kind": "await_each", "n": n, "steps": steps, "susp": susp, "cont": "fresh"}
                            yield {"kind": "await_each", "n": n, "steps": steps, "susp": susp, "cont": "queue_filled_later"}
                            yield {"kind": "await_each", "n": n, "steps": steps, "susp": susp, "cont": "getitem_sequence"}
                        for aw_kind in ("legacy", "mixed", "bad"):
                            yield {"kind": "await_each", "n": n, "steps": steps, "susp": susp, "cont": cont, "aw_kind": aw_kind}
    for n in range(0, 6):
        for npos in range(0, n + 1):
            for susp in (0, 1):
                for fail in (None,) + tuple(range(n)):
                    idx += 1
                    if idx % nshards == shard:
                        yield {"kind": "apply", "n": n, "npos": npos, "susp": susp, "fail": fail}
    shapes = ["plain", "coro", "awaitable", "raise", "coro_raise", "awaitable_raise"]
    excs = list(EXC)
    for n in (1, 2, 3):
        for seq in itertools.product(shapes, repeat=n):
            for wrap in ("function", "partial", "callobj", "lambda"):
                idx += 1
                if idx % nshards == shard:
                    # the exception type rotates over the sequences; sequences that raise get every type
                    raising = any("raise" in x for x in seq)
                    for exc in (excs if raising and n < 3 else [excs[idx % len(excs)]]):
                        yield {"kind": "sync_seq", "seq": list(seq), "wrap": wrap, "susp": idx % 2, "exc": exc}
    for pattern in RELATED:
        for order in ([0, 1], [1, 0]):
            idx += 1
            if idx % nshards == shard:
                yield {"kind": "sync_related", "pattern": pattern, "order": order}
    for how in ("keyword_named_function", "keyword_named_like_internals", "class_attribute", "class_attribute_async_def",
                "equal_callables", "awaitable_class"):
        idx += 1
        if idx % nshards == shard:
            yield {"kind": "sync_calling_conventions", "how": how}
    for which in ("next", "list_pop", "dict_get", "getattr", "operator_getitem", "deque_popleft", "len"):
        for stored in ("awaitable", "coroutine", "plain"):
            for susp in (0, 1):
                idx += 1
                if idx % nshards == shard:
                    yield {"kind": "sync_builtin", "which": which, "stored": stored, "susp": susp}
    for flav in ("def", "async_def", "partial", "callobj", "lambda_awaitable", "def_raises", "async_raises",
                 "callobj_plain", "notcallable", "awaitable_value", "lambda_awaitable_raises", "callobj_raises",
                 "awaitable_value_raises", "partial_raises", "class_async_call_instances", "class_plain",
                 "wraps_blocking", "wraps_blocking_raises", "callobj_wrapped_attr", "def_lookalike",
                 "def_concurrent_future"):
        for susp in (0, 1):
            for exc in (excs if flav.endswith("raises") else ["KeyError"]):
                idx += 1
                if idx % nshards == shard:
                    yield {"kind": "sync", "flav": flav, "susp": susp, "exc": exc}
    # faults: the failing awaitable / iteration step / outer awaitable surfaces as that very exception, after
    # exactly the items before it, and nothing later is awaited
    for n in range(1, 5):
        for at in range(n):
            for where in ("item", "source", "outer"):
                for cont in ("list", "iterator", "aiter"):
                    if where == "source" and cont == "list":
                        continue
                    for item_aw in (False, True, "awaitobj"):
                        if where == "item" and not item_aw:
                            continue
                        for outer_aw in (False, True, "awaitobj", "future_like"):
                            if where == "outer" and (not outer_aw or at):
                                continue
                            for susp in (0, 1):
                                idx += 1
                                if idx % nshards == shard:
                                    yield {"kind": "any_iter_fault", "n": n, "at": at, "where": where, "cont": cont,
                                           "item_aw": item_aw, "outer_aw": outer_aw, "susp": susp,
                                           "exc": GEN_EXC[idx % len(GEN_EXC)]}
            for cont in ("list", "iterator"):
                for susp in (0, 1, 2):
                    # (a StopAsyncIteration / StopIteration from an awaitable - the head of an exhausted iterator,
                    # say - cannot leave an async generator as such: it surfaces as the interpreter's RuntimeError,
                    # it does NOT quietly end the stream)
                    for exc in GEN_EXC + ["StopAsyncIteration"]:
                        idx += 1
                        if idx % nshards == shard:
                            yield {"kind": "await_each_fault", "n": n, "at": at, "cont": cont, "susp": susp, "exc": exc}
    for n in range(0, 4):
        for npos in range(0, n + 1):
            for exc in excs:
                for fail in tuple(range(n)) + ("func",):
                    idx += 1
                    if idx % nshards == shard:
                        yield {"kind": "apply", "n": n, "npos": npos, "susp": idx % 2, "fail": fail, "exc": exc}
            # awaitables that compare equal to each other (hashable or unhashable): each one is awaited all the same
            for result in ("awaitable", "coroutine"):
                idx += 1
                if idx % nshards == shard:
                    yield {"kind": "apply", "n": n, "npos": npos, "susp": idx % 2, "fail": None, "result": result}
            for kind in ("equal_hashable", "equal_unhashable"):
                idx += 1
                if idx % nshards == shard:
                    yield {"kind": "apply", "n": n, "npos": npos, "susp": idx % 2, "fail": None, "awaitables": kind}


class CancelLike(BaseException):
    """What an event loop throws to cancel: not an Exception."""


EXC = {"KeyError": KeyError, "TypeError": TypeError, "AttributeError": AttributeError, "ValueError": ValueError,
       "RuntimeError": RuntimeError, "LookupError": LookupError, "AssertionError": AssertionError,
       "CancelLike": CancelLike, "StopAsyncIteration": StopAsyncIteration, "Exception": Exception,
       "BaseException": BaseException}
# inside an async generator (any_iter, await_each) the interpreter itself turns Stop(Async)Iteration into RuntimeError
GEN_EXC = [k for k in EXC if k != "StopAsyncIteration"]


def run_any_iter_fault(case, stats):
    CTX.reset()
    n, at, where = case["n"], case["at"], case["where"]
    exc = EXC[case["exc"]]("injected")
    items = [Item(i, ("x", i)) for i in range(n)]
    awaited = []

    async def aw(i, item):
        awaited.append(i)
        if case["susp"]:
            await Suspend(("item", i), 1)
        if where == "item" and i == at:
            raise exc
        return item

    class AwaitObj:
        def __init__(self, i, item):
            self.i, self.item = i, item

        def __await__(self):
            return aw(self.i, self.item).__await__()

    made = []

    def cell(i, item):
        kind = case["item_aw"]
        if kind == "awaitobj":
            return AwaitObj(i, item)
        if kind:
            c = aw(i, item)
            made.append(c)
            return c
        return item

    def sync_gen():
        for i, it in enumerate(items):
            if where == "source" and i == at:
                raise exc
            yield cell(i, it)

    async def agen():
        for i, it in enumerate(items):
            if case["susp"]:
                await Suspend(("source", i), 1)
            if where == "source" and i == at:
                raise exc
            yield cell(i, it)

    cont = [cell(i, it) for i, it in enumerate(items)] if case["cont"] == "list" else sync_gen() if case["cont"] == "iterator" else agen()
    if case["outer_aw"]:
        async def outer():
            if case["susp"]:
                await Suspend("outer", 1)
            if where == "outer":
                raise exc
            return cont

        class OuterAwaitable:
            def __await__(self):
                return outer().__await__()

        class FutureLike(OuterAwaitable):
            __iter__ = OuterAwaitable.__await__

        arg = {True: outer, "awaitobj": OuterAwaitable, "future_like": FutureLike}[case["outer_aw"]]()
    else:
        arg = cont
    got = []
    end = {}

    async def main():
        it = A.any_iter(arg)
        try:
            for _ in range(n + 2):
                got.append(await it.__anext__())
        except BaseException as e:  # noqa: BLE001
            end["exc"] = e
        before = list(awaited)
        try:
            await it.__anext__()
            end["after"] = "yielded"
        except StopAsyncIteration:
            end["after"] = "stop"
        except BaseException as e:  # noqa: BLE001
            end["after"] = f"raised {type(e).__name__}"
        end["awaited_after_failure"] = awaited[len(before):]
        await it.aclose()

    drive(main())
    want = [] if where == "outer" else items[:at]
    viols = []
    head = f"any_iter {case}"
    if len(got) != len(want) or any(a is not b for a, b in zip(got, want)):
        viols.append({"key": "any_iter/items-before-failure", "msg": f"{head}: got {[canon(x) for x in got]}, wanted the {len(want)} items before the failure"})
    if end.get("exc") is not exc:
        viols.append({"key": "any_iter/exception", "msg": f"{head}: the injected exception surfaced as {end.get('exc')!r}"})
    if end.get("after") != "stop" or end.get("awaited_after_failure"):
        viols.append({"key": "any_iter/continues-after-failure", "msg": f"{head}: after the failure: {end}"})
    if case["item_aw"] and where != "outer":
        exp = list(range(at + 1)) if where == "item" else list(range(at))
        if awaited != exp:
            viols.append({"key": "any_iter/await-order", "msg": f"{head}: item awaitables awaited {awaited}, expected {exp}"})
    for c in made:
        c.close()
    if case["outer_aw"] is True and getattr(arg, "cr_frame", None) is not None:
        arg.close()
    if CTX.foreign:
        viols.append({"key": "any_iter/foreign-suspension", "msg": CTX.foreign[0]})
    stats["any_iter_fault_runs"] += 1
    return {"violations": viols, "nontrivial": True, "sig": tuple(sorted(case.items(), key=str))}


def run_await_each_fault(case, stats):
    CTX.reset()
    n, at = case["n"], case["at"]
    exc = EXC[case["exc"]]("injected")
    items = [Item(i, ("y", i)) for i in range(n)]
    events = []

    async def aw(i):
        events.append(("await", i))
        if case["susp"]:
            await Suspend(("aw", i), case["susp"])
        if i == at:
            raise exc
        return items[i]

    coros = [aw(i) for i in range(n)]
    drawn = []

    def feed():
        for i, c in enumerate(coros):
            drawn.append(i)
            yield c

    arg = coros if case["cont"] == "list" else feed()
    got, end = [], {}

    async def main():
        it = A.await_each(arg)
        try:
            for _ in range(n + 2):
                got.append(await it.__anext__())
        except BaseException as e:  # noqa: BLE001
            end["exc"] = e
        try:
            await it.__anext__()
            end["after"] = "yielded"
        except StopAsyncIteration:
            end["after"] = "stop"
        except BaseException as e:  # noqa: BLE001
            end["after"] = f"raised {type(e).__name__}"
        await it.aclose()

    drive(main())
    viols = []
    head = f"await_each {case}"
    if len(got) != at or any(a is not b for a, b in zip(got, items)):
        viols.append({"key": "await_each/items-before-failure", "msg": f"{head}: got {[canon(x) for x in got]}"})
    if case["exc"] == "StopAsyncIteration":
        surfaced = end.get("exc")
        if not (isinstance(surfaced, RuntimeError) and surfaced.__cause__ is exc):
            viols.append({"key": "await_each/stop-signal-of-an-awaitable-ends-the-stream",
                          "msg": f"{head}: the awaitable's StopAsyncIteration surfaced as {surfaced!r} (expected the "
                                 f"interpreter's RuntimeError caused by it)"})
    elif end.get("exc") is not exc:
        viols.append({"key": "await_each/exception", "msg": f"{head}: the injected exception surfaced as {end.get('exc')!r}"})
    if events != [("await", i) for i in range(at + 1)] or end.get("after") != "stop":
        viols.append({"key": "await_each/continues-after-failure", "msg": f"{head}: awaited {events}, then {end.get('after')}"})
    import inspect
    spoiled = [i for i, c in enumerate(coros) if i > at and inspect.getcoroutinestate(c) != inspect.CORO_CREATED]
    if spoiled or len(drawn) > at + 1:
        viols.append({"key": "await_each/touches-what-was-not-asked-for",
                      "msg": f"{head}: after the failure of awaitable {at}: later awaitables {spoiled} were started or closed, "
                             f"{len(drawn)} were drawn from the caller's iterator"})
    for c in coros:
        c.close()
    if CTX.foreign:
        viols.append({"key": "await_each/foreign-suspension", "msg": CTX.foreign[0]})
    stats["await_each_fault_runs"] += 1
    return {"violations": viols, "nontrivial": True, "sig": tuple(sorted(case.items(), key=str))}


def run_any_iter(case, stats):
    CTX.reset()
    n = case["n"]

    def wrapped(i):
        kind = case["item_aw"]
        if kind == "lookalike":
            return False
        return bool([False, True, "awaitobj"][i % 3] if kind == "mixed" else kind)

    # what an item awaitable RESOLVES to may itself happen to be awaitable (a job handle): it is the item, delivered
    # as it is - one layer is awaited, not "until nothing awaitable is left"
    items = [AwaitablePayload(("x", i)) if wrapped(i) and i % 2 else Item(i, ("x", i)) for i in range(n)]
    awaited = []
    events = []
    if case["item_aw"] == "lookalike":
        # plain items that merely EXPOSE an ``__await__`` attribute without being awaitable: a class whose instances are
        # awaitable (the class object is the item), a proxy / stub whose __getattr__ answers every name.  ``await``
        # looks the slot up on the type - these are not awaitable, they are handed on as they are
        def lookalike(i):
            if i % 2:
                class Job:
                    def __await__(self):
                        awaited.append(i)
                        return iter(())
                return Job

            class Stub:
                def __getattr__(self, name):
                    if name.startswith("__") and name != "__await__":
                        raise AttributeError(name)
                    return lambda *a, **k: awaited.append((i, name)) or iter(())
            return Stub()
        items = [lookalike(i) for i in range(n)]

    async def aw(i, item):
        awaited.append(i)
        events.append(("await", i))
        if case["susp"]:
            await Suspend(("item", i), 1)
        return item

    class AwaitObj:
        """An awaitable that is not a coroutine."""

        def __init__(self, i, item):
            self.i, self.item = i, item

        def __await__(self):
            return aw(self.i, self.item).__await__()

    def cell(i, item):
        kind = case["item_aw"]
        if kind == "lookalike":
            return item
        if kind == "mixed":
            kind = [False, True, "awaitobj"][i % 3]
        if kind == "awaitobj":
            return AwaitObj(i, item)
        return aw(i, item) if kind else item

    if case["cont"] == "list":
        cont = [cell(i, it) for i, it in enumerate(items)]
    elif case["cont"] == "falsy_list":
        # a source that is FALSY although it provides items (its truth value / length reports a current backlog): whether
        # there is anything to iterate is found out by iterating
        class Backlog(list):
            def __bool__(self):
                return False

        cont = Backlog(cell(i, it) for i, it in enumerate(items))
    elif case["cont"] == "iterator":
        cont = (cell(i, it) for i, it in enumerate(items))
    else:
        async def agen():
            for i, it in enumerate(items):
                yield cell(i, it)
        cont = agen()
        if case["cont"] == "lazy_setup":
            # an async iterator that sets itself up when it is asked for its iterator (``self.pos = 0; return self``):
            # stepping it without having called ``__aiter__`` is a protocol breach of the caller
            class LazySetup:
                def __init__(self, inner):
                    self.inner = inner

                def __aiter__(self):
                    self.ready = True
                    return self

                def __anext__(self):
                    if not getattr(self, "ready", False):
                        CTX.foreign.append("an async iterator was advanced although its __aiter__ had never been called")
                    return self.inner.__anext__()

            cont = LazySetup(cont)
        if case["cont"] == "dual":
            # an object offering BOTH protocols (a result set / stream whose synchronous iteration is refused - or gives
            # something else - in asynchronous code): it is asynchronously iterable, and that is how it is iterated
            class Dual:
                def __init__(self, inner):
                    self.inner = inner

                def __aiter__(self):
                    return self.inner

                def __iter__(self):
                    CTX.foreign.append("an asynchronously iterable object was iterated through its synchronous protocol")
                    raise RuntimeError("synchronous iteration in an asynchronous context")

                def __len__(self):
                    return 0  # (the current backlog: falsy, and no statement about what iterating will provide)

            cont = Dual(cont)
    if case["outer_aw"]:
        async def outer():
            events.append(("outer",))
            if case["susp"]:
                await Suspend("outer", 1)
            return cont

        class OuterAwaitable:
            """An awaitable that is not a coroutine."""

            def __await__(self):
                return outer().__await__()

        class FutureLike(OuterAwaitable):
            """Like asyncio.Future / Task: awaitable, and for legacy `yield from` also iterable."""

            __iter__ = OuterAwaitable.__await__

        arg = {True: outer, "awaitobj": OuterAwaitable, "future_like": FutureLike}[case["outer_aw"]]()
    else:
        arg = cont
    got = []

    async def main():
        it = A.any_iter(arg)
        for step in range(case["steps"]):
            events.append(("step", step))
            try:
                got.append(await it.__anext__())
            except StopAsyncIteration:
                got.append("STOP")
                break
        await it.aclose()

    drive(main())
    want = list(items[:case["steps"]])
    if case["steps"] > n:
        want.append("STOP")
    viols = []
    if len(got) != len(want) or any(a is not b for a, b in zip(got, want)):
        viols.append({"key": "any_iter/items", "msg": f"any_iter {case}: got {[canon(x) if x != 'STOP' else x for x in got]}, "
                                                       f"wanted the first {case['steps']} of {n} items"})
    if case["item_aw"]:
        # each item awaitable awaited during the step that requests it, in order
        exp_aw = list(range(min(case["steps"], n)))
        if case["item_aw"] == "mixed":
            exp_aw = [i for i in exp_aw if i % 3]
        if case["item_aw"] == "lookalike":
            exp_aw = []
        if awaited != exp_aw:
            viols.append({"key": "any_iter/await-order", "msg": f"any_iter {case}: item awaitables awaited {awaited}, expected {exp_aw}"})
    # un-awaited coroutines of the list shape are ours to dispose of - and must still be ours: any_iter may
    # neither start nor close an item its consumer never asked for
    if case["item_aw"] and case["item_aw"] != "lookalike" and case["cont"] in ("list", "falsy_list"):
        import inspect
        spoiled = [i for i, c in enumerate(cont) if i >= case["steps"] and inspect.iscoroutine(c)
                   and inspect.getcoroutinestate(c) != inspect.CORO_CREATED]
        if spoiled:
            viols.append({"key": "any_iter/touches-what-was-not-asked-for",
                          "msg": f"any_iter {case}: after {case['steps']} steps and aclose() the item awaitables {spoiled} were "
                                 f"started or closed"})
        for c in cont:
            if hasattr(c, "close") and hasattr(c, "cr_frame"):
                c.close()
    if case["cont"] not in ("list", "falsy_list", "dual", "lazy_setup") and case["steps"] <= n:
        # the source is the CALLER's one-shot iterator, synchronous or asynchronous alike: closing the any_iter stream
        # early leaves it usable, with everything that was not taken still in it
        rest = []

        async def drain():
            if hasattr(cont, "__anext__"):
                async for c in cont:
                    rest.append(c)
            else:
                rest.extend(cont)

        if not (case["outer_aw"] and case["steps"] == 0):  # (an awaitable source never awaited was never reached)
            drive(drain())
            stats["sources_reused_after_an_early_close"] += 1
            if len(rest) != n - case["steps"]:
                viols.append({"key": "any_iter/touches-what-was-not-asked-for",
                              "msg": f"any_iter {case}: after {case['steps']} steps and aclose() the caller's iterator still "
                                     f"gives {len(rest)} of the {n - case['steps']} items that were not taken"})
            for c in rest:
                if hasattr(c, "close") and hasattr(c, "cr_frame"):
                    c.close()
    if case["outer_aw"] is True and case["steps"] == 0:
        arg.close()
    if CTX.foreign:
        viols.append({"key": "any_iter/foreign-suspension", "msg": CTX.foreign[0]})
    stats["any_iter_runs"] += 1
    return {"violations": viols, "nontrivial": n > 0, "sig": tuple(sorted(case.items()))}


def run_await_each(case, stats):
    CTX.reset()
    n = case["n"]
    events = []
    items = [Item(i, ("y", i)) for i in range(n)]

    async def aw(i):
        events.append(("await", i))
        if case["susp"]:
            await Suspend(("aw", i), case["susp"])
        events.append(("done", i))
        return items[i]

    import types

    @types.coroutine
    def legacy(i):
        # a generator-based coroutine (``@types.coroutine``): a legal operand of ``await`` that ``collections.abc.Awaitable``
        # does not recognise - what can be awaited is decided by ``await``, not by an isinstance test
        events.append(("await", i))
        if case["susp"]:
            yield from Suspend(("aw", i), case["susp"]).__await__()
        events.append(("done", i))
        return items[i]

    kind = case.get("aw_kind", "coro")
    coros = [legacy(i) if kind == "legacy" or (kind == "mixed" and i % 2) else aw(i) for i in range(n)]
    if kind == "bad" and n:
        coros[n - 1].close()
        coros[n - 1] = items[n - 1]  # NOT awaitable: reaching it is a TypeError, like ``await`` of any such object
    drawn = []

    def feed():
        for i, c in enumerate(coros):
            drawn.append(i)
            yield c

    arg = coros if case["cont"] == "list" else feed()
    later = []
    if case["cont"] == "fresh":
        # a LAZY input that creates each awaitable when it is asked for and keeps none of them (a generator expression
        # over a work list): objects come and go, addresses are reused - an awaitable is known by nothing but itself
        def feed_fresh():
            for i in range(n):
                drawn.append(i)
                yield (legacy(i) if kind == "legacy" else aw(i))
        for c in coros:
            if hasattr(c, "close"):
                c.close()
        coros = []
        arg = feed_fresh()
    if case["cont"] == "worklist":
        # a list used as a WORK QUEUE: the consumer appends follow-up awaitables while it iterates (``for x in work``
        # reaches them): the caller's list is iterated live, not a snapshot of it
        arg = coros[:(n + 1) // 2]
        later = coros[(n + 1) // 2:]
    if case["cont"] == "getitem_sequence":
        # iterable through the sequence protocol only (``__getitem__`` with 0.., IndexError at the end; no ``__iter__``):
        # what a ``for`` loop accepts is what await_each accepts
        class JobSequence:
            def __init__(self, jobs):
                self._jobs = jobs

            def __getitem__(self, index):
                job = self._jobs[index]
                drawn.append(index)
                return job

            def __len__(self):
                return len(self._jobs)

        arg = JobSequence(coros)
    late = []
    if case["cont"] == "queue_filled_later":
        # a queue (deque) handed over while it is still being filled: the stream is created first, the rest of the work
        # is queued BEFORE the consumer asks for anything - iteration begins with the first request, not with the call
        import collections
        arg = collections.deque(coros[:(n + 1) // 2])
        late = coros[(n + 1) // 2:]
    got = []

    async def main():
        it = A.await_each(arg)
        if late:
            arg.extend(late)
        for step in range(case["steps"]):
            events.append(("step", step))
            if step == 1 and later:
                arg.extend(later)
                later.clear()
            try:
                got.append(await it.__anext__())
            except StopAsyncIteration:
                got.append("STOP")
                break
            except TypeError:
                got.append("TypeError")
                break
        await it.aclose()

    drive(main())
    want_events = []
    want = []
    for step in range(case["steps"]):
        want_events.append(("step", step))
        if step < n:
            if kind == "bad" and step == n - 1:
                want.append("TypeError")
                break
            want_events += [("await", step), ("done", step)]
            want.append(items[step])
        else:
            want.append("STOP")
            break
    viols = []
    if events != want_events:
        viols.append({"key": "await_each/laziness", "msg": f"await_each {case}: events {events}, expected {want_events}"})
    if len(got) != len(want) or any(a is not b for a, b in zip(got, want)):
        viols.append({"key": "await_each/items", "msg": f"await_each {case}: wrong items"})
    # what the consumer never asked for still belongs to the caller: not drawn from its iterator, not closed
    import inspect
    left = coros[min(case["steps"], n):] if case["cont"] != "fresh" else []
    def untouched(c):
        if inspect.iscoroutine(c):
            return inspect.getcoroutinestate(c) == inspect.CORO_CREATED
        if inspect.isgenerator(c):
            return inspect.getgeneratorstate(c) == inspect.GEN_CREATED
        return True
    spoiled = [i for i, c in enumerate(left, min(case["steps"], n)) if not untouched(c)]
    if spoiled or len(drawn) > case["steps"]:
        viols.append({"key": "await_each/touches-what-was-not-asked-for",
                      "msg": f"await_each {case}: after {case['steps']} steps and aclose(): awaitables {spoiled} were started or "
                             f"closed, {len(drawn)} were drawn from the caller's iterator"})
    for c in left:
        if hasattr(c, "close"):
            c.close()
    if CTX.foreign:
        viols.append({"key": "await_each/foreign-suspension", "msg": CTX.foreign[0]})
    stats["await_each_runs"] += 1
    return {"violations": viols, "nontrivial": n > 0, "sig": tuple(sorted(case.items()))}


def run_apply(case, stats):
    CTX.reset()
    n, npos = case["n"], case["npos"]
    order = []
    vals = [Item(i, ("a", i)) for i in range(n)]
    boom = EXC[case.get("exc", "LookupError")]("arg failed")

    async def aw(i):
        order.append(i)
        if case["susp"]:
            await Suspend(("arg", i), 1)
        if case["fail"] == i:
            raise boom
        return vals[i]

    class EqualAwaitable:
        """Awaitables with VALUE equality: all equal to each other (like frozen request records), hashable or not."""

        def __init__(self, i):
            self.i = i

        def __await__(self):
            return aw(self.i).__await__()

        def __eq__(self, other):
            return isinstance(other, EqualAwaitable)

        __hash__ = (lambda self: 7) if case.get("awaitables") == "equal_hashable" else None  # type: ignore[assignment]

    if case.get("awaitables"):
        coros = [EqualAwaitable(i) for i in range(n)]
    else:
        coros = [aw(i) for i in range(n)]
    pos = coros[:npos]
    kw = {f"k{9 - i}": coros[i] for i in range(npos, n)}
    seen = {}

    class ResultAwaitable:
        """What the function returns in the "awaitable result" variant: apply hands it back, it does not await it."""

        awaited = 0

        def __await__(self):
            ResultAwaitable.awaited += 1
            return iter(())

    returned = {}

    def plain_func(*args, **kwargs):
        seen["args"], seen["kwargs"] = args, kwargs
        if case["fail"] == "func":
            raise boom
        if case.get("result") == "awaitable":
            returned["obj"] = ResultAwaitable()
            return returned["obj"]
        return ("result", args, tuple(sorted(kwargs.items())))

    async def async_func(*args, **kwargs):
        return plain_func(*args, **kwargs)

    def func(*args, **kwargs):
        if case.get("result") == "coroutine":
            returned["obj"] = async_func(*args, **kwargs)
            return returned["obj"]
        return plain_func(*args, **kwargs)

    try:
        res = ("ok", drive(A.apply(func, *pos, **kw)))
    except BaseException as exc:  # noqa: BLE001
        res = ("raise", exc)
    viols = []
    if case.get("result") and case["fail"] is None:
        # "returns the function's result": the very object, not what awaiting it would give
        obj = returned.get("obj")
        if res[0] != "ok" or res[1] is not obj or ResultAwaitable.awaited:
            viols.append({"key": "apply/function-result-awaited",
                          "msg": f"apply {case}: the function returned {obj!r}; apply gave {res!r} "
                                 f"(result awaited {ResultAwaitable.awaited}x)"})
        if hasattr(obj, "close"):
            obj.close()
        for c in coros:
            if hasattr(c, "close"):
                c.close()
        stats["apply_runs"] += 1
        return {"violations": viols, "nontrivial": True, "sig": tuple(sorted(case.items(), key=str))}
    if case["fail"] is None:
        want_args = tuple(vals[:npos])
        want_kwargs = {f"k{9 - i}": vals[i] for i in range(npos, n)}
        ok = (res[0] == "ok" and len(seen.get("args", ())) == npos and all(a is b for a, b in zip(seen["args"], want_args))
              and seen["kwargs"].keys() == want_kwargs.keys() and all(seen["kwargs"][k] is v for k, v in want_kwargs.items())
              and res[1] == ("result", want_args, tuple(sorted(want_kwargs.items()))))
        if not ok:
            viols.append({"key": "apply/result", "msg": f"apply {case}: got {res}, func saw {seen}"[:500]})
        if order != list(range(n)):
            viols.append({"key": "apply/await-order", "msg": f"apply {case}: awaited {order}"})
    elif case["fail"] == "func":
        if res[0] != "raise" or res[1] is not boom or not seen or order != list(range(n)):
            viols.append({"key": "apply/function-error", "msg": f"apply {case}: failing function gave {res}, awaited {order}"})
    else:
        if res[0] != "raise" or res[1] is not boom or seen:
            viols.append({"key": "apply/argument-error", "msg": f"apply {case}: failing argument gave {res}, func called: {bool(seen)}"})
        if order != list(range(case["fail"] + 1)):
            viols.append({"key": "apply/await-order", "msg": f"apply {case}: awaited {order} although argument {case['fail']} failed"})
    for c in coros:
        if hasattr(c, "close"):
            c.close()
    if CTX.foreign:
        viols.append({"key": "apply/foreign-suspension", "msg": CTX.foreign[0]})
    stats["apply_runs"] += 1
    return {"violations": viols, "nontrivial": n > 0, "sig": tuple(sorted(case.items(), key=str))}


def run_sync_class(case, stats):
    """sync() of a CLASS (a factory like any other callable): the call constructs an instance - also when the instances
    themselves happen to be callable with an ``async def __call__`` - and the wrapper hands it out through an await."""
    CTX.reset()
    made = []

    class Handler:
        def __init__(self, a, b=2):
            made.append((a, b))
            self.a, self.b = a, b

        async def __call__(self, x):
            return (self.a, self.b, x)

    class Plain:
        def __init__(self, a, b=2):
            made.append((a, b))

    cls = Handler if case["flav"] == "class_async_call_instances" else Plain
    viols = []
    wrapped = A.sync(cls)
    try:
        aw = wrapped(7, b=3)
        import inspect
        if not inspect.isawaitable(aw):
            viols.append({"key": "sync/returns-plain-value", "msg": f"sync({cls.__name__})(...) returned a {type(aw).__name__}, not an awaitable"})
            res = aw
        else:
            res = drive(_await(aw))
        if not isinstance(res, cls) or made != [(7, 3)]:
            viols.append({"key": "sync/result", "msg": f"sync({cls.__name__})(7, b=3) gave {res!r}; constructed: {made}"})
    except BaseException as exc:  # noqa: BLE001
        viols.append({"key": "sync/result", "msg": f"sync({cls.__name__})(7, b=3) raised {type(exc).__name__}: {exc}"})
    if CTX.foreign:
        viols.append({"key": "sync/foreign-suspension", "msg": CTX.foreign[0]})
    stats["sync_runs"] += 1
    return {"violations": viols, "nontrivial": True, "sig": (case["flav"],)}


def run_sync(case, stats):
    if case["flav"].startswith("class_"):
        return run_sync_class(case, stats)
    CTX.reset()
    flav, susp = case["flav"], case["susp"]
    # (where the callable hands out an awaitable, what THAT resolves to may again be awaitable: it is the result)
    if flav == "def_lookalike":
        # a plain value that merely exposes an __await__ attribute (not awaitable): the result, as it is
        from ..tools import Lookalike
        result = Lookalike("res")
    elif flav == "def_concurrent_future":
        # a concurrent.futures.Future (what Executor.submit gives) is a plain, non-awaitable value: the result
        import concurrent.futures
        result = concurrent.futures.Future()
        result.set_result("done")
    elif flav in ("def", "callobj_plain", "def_raises", "notcallable", "wraps_blocking", "wraps_blocking_raises",
                  "callobj_wrapped_attr"):
        result = Item(1, "res")
    else:
        result = AwaitablePayload("res")
    boom = EXC[case.get("exc", "KeyError")]("boom")
    calls = []

    def d(a, b=2):
        calls.append((a, b))
        return result

    async def ad(a, b=2):
        calls.append((a, b))
        if susp:
            await Suspend("fn", 1)
        return result

    def draise(a, b=2):
        raise boom

    async def araise(a, b=2):
        if susp:
            await Suspend("fn", 1)
        raise boom

    class CallObj:
        def __call__(self, a, b=2):
            return ad(a, b)

    class CallPlain:
        def __call__(self, a, b=2):
            calls.append((a, b))
            return result

    class AwaitableValue:
        def __init__(self, fail=False):
            self.fail = fail

        def __await__(self):
            if susp:
                yield from Suspend("awaitable", 1).__await__()
            if self.fail:
                raise boom
            return result

    class CallRaises:
        def __call__(self, a, b=2):
            return araise(a, b)

    # a plain function that presents itself as a coroutine function it wraps (functools.wraps copies the metadata and
    # sets __wrapped__) but runs to completion and returns a plain value - e.g. a blocking facade
    @functools.wraps(ad)
    def blocking(a, b=2):
        calls.append((a, b))
        return result

    @functools.wraps(araise)
    def blocking_raises(a, b=2):
        raise boom

    class CallWrappedAttr(CallPlain):
        __wrapped__ = staticmethod(ad)

    fn = {"def_lookalike": d, "def_concurrent_future": d, "wraps_blocking": blocking, "wraps_blocking_raises": blocking_raises, "callobj_wrapped_attr": CallWrappedAttr(),
          "def": d, "async_def": ad, "partial": functools.partial(ad, 1), "callobj": CallObj(),
          "lambda_awaitable": (lambda a, b=2: ad(a, b)), "def_raises": draise, "async_raises": araise,
          "callobj_plain": CallPlain(), "notcallable": 5, "awaitable_value": (lambda a, b=2: AwaitableValue()),
          "lambda_awaitable_raises": (lambda a, b=2: araise(a, b)), "callobj_raises": CallRaises(),
          "awaitable_value_raises": (lambda a, b=2: AwaitableValue(True)),
          "partial_raises": functools.partial(araise, 1)}[flav]
    viols = []
    try:
        wrapped = A.sync(fn)
    except TypeError:
        if flav != "notcallable":
            viols.append({"key": "sync/rejects-callable", "msg": f"sync({flav}) raised TypeError"})
        stats["sync_runs"] += 1
        return {"violations": viols, "nontrivial": True, "sig": (flav, susp)}
    if flav == "notcallable":
        viols.append({"key": "sync/accepts-non-callable", "msg": "sync(5) did not raise TypeError"})
        return {"violations": viols, "nontrivial": True, "sig": (flav, susp)}
    if flav in ("async_def", "async_raises") and wrapped is not fn:
        viols.append({"key": "sync/coroutine-function-not-returned-unchanged", "msg": f"sync({flav}) is not the function itself"})
    args = (7,) if not flav.startswith("partial") else ()
    try:
        try:
            aw = wrapped(*args, b=3)
        except BaseException as exc:  # noqa: BLE001
            # "makes any callable awaitable with the same ... exception": the failure belongs to the awaitable;
            # a caller that creates the awaitable first and awaits it inside its try block never sees it there
            if flav != "async_raises":
                viols.append({"key": "sync/exception-raised-by-the-call-not-by-the-awaitable",
                              "msg": f"sync({flav})(...) itself raised {type(exc).__name__}: no awaitable was returned"})
            raise
        import inspect
        if not inspect.isawaitable(aw):
            viols.append({"key": "sync/returns-plain-value", "msg": f"sync({flav})(...) returned {type(aw).__name__}"})
            res = ("ok", aw)
        else:
            res = ("ok", drive(_await(aw)))
    except BaseException as exc:  # noqa: BLE001
        res = ("raise", exc)
    if flav.endswith("raises"):
        if res[0] != "raise" or res[1] is not boom:
            viols.append({"key": "sync/exception", "msg": f"sync({flav}): {res}"})
    else:
        if res[0] != "ok" or res[1] is not result:
            viols.append({"key": "sync/result", "msg": f"sync({flav}): {res}"})
        want_calls = [] if flav == "awaitable_value" else [(1, 3)] if flav == "partial" else [(7, 3)]
        if calls != want_calls:
            viols.append({"key": "sync/calls", "msg": f"sync({flav}): underlying called with {calls}"})
    if CTX.foreign:
        viols.append({"key": "sync/foreign-suspension", "msg": CTX.foreign[0]})
    stats["sync_runs"] += 1
    return {"violations": viols, "nontrivial": True, "sig": (flav, susp)}


async def _await(aw):
    return await aw


def run_sync_seq(case, stats):
    """One sync() wrapper called several times; the callable's return shape varies from call to call."""
    CTX.reset()
    seq, susp = case["seq"], case["susp"]
    state = {"i": 0}
    boom = [EXC[case.get("exc", "KeyError")](f"boom{i}") for i in range(len(seq))]
    results = [Item(i, ("res", i)) for i in range(len(seq))]

    class Aw:
        def __init__(self, value, fail=None):
            self.value, self.fail = value, fail

        def __await__(self):
            if susp:
                yield from Suspend("awaitable", 1).__await__()
            if self.fail is not None:
                raise self.fail
            return self.value

    async def coro(value, fail=None):
        if susp:
            await Suspend("coro", 1)
        if fail is not None:
            raise fail
        return value

    def fn(*args, **kwargs):
        i = state["i"]
        state["i"] += 1
        shape = seq[i]
        if shape == "plain":
            return results[i]
        if shape == "coro":
            return coro(results[i])
        if shape == "awaitable":
            return Aw(results[i])
        if shape == "coro_raise":
            return coro(None, boom[i])
        if shape == "awaitable_raise":
            return Aw(None, boom[i])
        raise boom[i]

    class CallObj:
        def __call__(self, *a, **k):
            return fn(*a, **k)

    target = {"function": fn, "partial": functools.partial(fn, 1), "callobj": CallObj(), "lambda": (lambda *a, **k: fn(*a, **k))}[case["wrap"]]
    wrapped = A.sync(target)
    viols = []
    for i, shape in enumerate(seq):
        try:
            res = ("ok", drive(_await(wrapped(i))))
        except BaseException as exc:  # noqa: BLE001
            res = ("raise", exc)
        if "raise" in shape:
            ok = res[0] == "raise" and res[1] is boom[i]
        else:
            ok = res[0] == "ok" and res[1] is results[i]
        if not ok:
            viols.append({"key": "sync/result-depends-on-earlier-calls",
                          "msg": f"sync({case['wrap']}) call #{i} of return shapes {seq}: got {res!r}"[:400]})
            break
    if CTX.foreign:
        viols.append({"key": "sync/foreign-suspension", "msg": CTX.foreign[0]})
    stats["sync_sequence_runs"] += 1
    return {"violations": viols, "nontrivial": len(set(seq)) > 1, "sig": tuple(sorted(case.items(), key=str))}


RELATED = ["wraps_copy", "object_copy", "bound_after_function", "function_after_bound", "subclass_callobj",
           "same_twice", "partial_of_wrapped", "two_instances"]


def run_sync_related(case, stats):
    """sync() applied to SEVERAL related callables, one after the other: each wrapper calls the callable it was made
    for.  The second callable may carry whatever the first one carries - a copied ``__dict__`` (functools.wraps,
    copy.copy), a shared ``__func__`` (bound method after its function), a base class."""
    import copy
    CTX.reset()
    pattern, order = case["pattern"], case["order"]
    viols = []

    def impl_a(x):
        return ("a", x)

    def impl_b(x):
        return ("b", x)

    class Scale:
        def __init__(self, factor):
            self.factor = factor

        def __call__(self, x):
            return ("scale", self.factor, x)

        def method(self, x):
            return ("method", self.factor, x)

    class Scale2(Scale):
        def __call__(self, x):
            return ("scale2", self.factor, x)

    if pattern == "wraps_copy":
        first, second = impl_a, functools.wraps(impl_a)(impl_b)
        want = [("a", 5), ("b", 5)]
    elif pattern == "object_copy":
        first = Scale(2)
        second = copy.copy(first)
        second.factor = 3
        want = [("scale", 2, 5), ("scale", 3, 5)]
    elif pattern == "bound_after_function":
        obj = Scale(4)
        first, second = functools.partial(Scale.method, obj), obj.method
        first = Scale.method
        want = [None, ("method", 4, 5)]
    elif pattern == "function_after_bound":
        obj = Scale(4)
        first, second = obj.method, Scale(6).method
        want = [("method", 4, 5), ("method", 6, 5)]
    elif pattern == "subclass_callobj":
        first, second = Scale(1), Scale2(1)
        want = [("scale", 1, 5), ("scale2", 1, 5)]
    elif pattern == "same_twice":
        first = second = impl_a
        want = [("a", 5), ("a", 5)]
    elif pattern == "partial_of_wrapped":
        first, second = impl_a, functools.partial(impl_a)
        want = [("a", 5), ("a", 5)]
    else:
        first, second = Scale(7), Scale(8)
        want = [("scale", 7, 5), ("scale", 8, 5)]
    pair = [first, second]
    wrapped = [None, None]
    for i in (order if order == [0, 1] else [1, 0]):
        wrapped[i] = A.sync(pair[i])
    for i in (0, 1):
        if want[i] is None:
            continue  # (an unbound method called without its instance is not part of the scenario)
        try:
            got = drive(_await(wrapped[i](5)))
        except BaseException as exc:  # noqa: BLE001
            got = ("raised", type(exc).__name__, str(exc)[:80])
        if got != want[i]:
            viols.append({"key": "sync/wrapper-of-another-callable",
                          "msg": f"sync() of two related callables ({pattern}, wrapped in order {order}): calling the wrapper of "
                                 f"#{i} gave {got!r}, the callable itself gives {want[i]!r}"})
    if CTX.foreign:
        viols.append({"key": "sync/foreign-suspension", "msg": CTX.foreign[0]})
    stats["sync_related_callables_runs"] += 1
    return {"violations": viols, "nontrivial": True, "sig": ("sync_related", pattern, str(order))}


def run_sync_calling_conventions(case, stats):
    """The wrapper sync() hands out is called like the function itself: with keywords of ANY name the function takes
    (also ``function``, ``self``, ``args`` ...), and - stored as a class attribute - through an instance, like a method
    ("a wrapped def behaves as if it were async def")."""
    CTX.reset()
    how = case["how"]
    seen = []
    viols = []

    def takes_function(a, function=None, func=None, self=None, args=None, kwargs=None, wrapped=None, callable=None):
        seen.append((a, function, func, self, args, kwargs, wrapped, callable))
        return ("result", a)

    def method(self, a):
        seen.append((self, a))
        return ("result", a)

    async def amethod(self, a):
        seen.append((self, a))
        return ("result", a)

    try:
        if how == "keyword_named_function":
            res = drive(_await(A.sync(takes_function)(7, function=3)))
            want_seen = [(7, 3, None, None, None, None, None, None)]
        elif how == "equal_callables":
            # two DISTINCT callable objects that compare (and hash) equal - value objects like a frozen dataclass with
            # __call__ - are still two callables: each wrapper calls the object it was made for
            class Scale:
                def __init__(self, factor, tag):
                    self.factor, self.tag = factor, tag

                def __eq__(self, other):
                    return isinstance(other, Scale) and self.factor == other.factor

                def __hash__(self):
                    return hash(self.factor)

                def __call__(self, x):
                    seen.append((self.tag, x))
                    return (self.tag, self.factor * x)

            first, second = A.sync(Scale(2, "first")), A.sync(Scale(2.0, "second"))
            res = (drive(_await(first(3))), drive(_await(second(3))), drive(_await(first(4))))
            if res != (("first", 6), ("second", 6.0), ("first", 8)) or seen != [("first", 3), ("second", 3), ("first", 4)]:
                viols.append({"key": "sync/result", "msg": f"sync wrappers of two equal callables: results {res!r}, calls {seen!r}"})
            res, want_seen = ("result", 7), seen
        elif how == "awaitable_class":
            # the callable is a CLASS whose instances are awaitable (a job, a request object): calling it hands back an
            # awaitable like any other callable may - the wrapper awaits it
            class Job:
                def __init__(self, a):
                    self.a = a

                def __await__(self):
                    seen.append(("awaited", self.a))
                    return ("result", self.a)
                    yield

            res = drive(_await(A.sync(Job)(7)))
            want_seen = [("awaited", 7)]
        elif how == "keyword_named_like_internals":
            res = drive(_await(A.sync(takes_function)(7, func=1, self=2, args=3, kwargs=4, wrapped=5, callable=6)))
            want_seen = [(7, None, 1, 2, 3, 4, 5, 6)]
        else:
            class Service:
                op = A.sync(method if how == "class_attribute" else amethod)

            inst = Service()
            res = drive(_await(inst.op(7)))
            want_seen = [(inst, 7)]
        if res != ("result", 7) or seen != want_seen:
            viols.append({"key": "sync/result", "msg": f"sync wrapper, {how}: gave {res!r}, the function saw {seen!r}"})
    except BaseException as exc:  # noqa: BLE001
        viols.append({"key": "sync/result", "msg": f"sync wrapper, {how}: raised {type(exc).__name__}: {exc}"})
    if CTX.foreign:
        viols.append({"key": "sync/foreign-suspension", "msg": CTX.foreign[0]})
    stats["sync_calling_convention_runs"] += 1
    return {"violations": viols, "nontrivial": True, "sig": ("sync_calling_conventions", how)}


def run_sync_builtin(case, stats):
    """sync() of a BUILT-IN callable (``next``, a bound ``list.pop`` / ``dict.get``, ``getattr``, ``operator.getitem``) that
    merely hands out what is stored elsewhere: when that is an awaitable (a job kept in a queue / registry) the call
    "returned an awaitable" like any other callable's - the wrapper's result is what awaiting it gives."""
    import collections
    import operator
    CTX.reset()
    which, stored, susp = case["which"], case["stored"], case["susp"]
    result = Item(1, "res")

    class Job:
        def __await__(self):
            if susp:
                yield from Suspend("job", 1).__await__()
            return result

    async def job():
        if susp:
            await Suspend("job", 1)
        return result

    thing = Job() if stored == "awaitable" else job() if stored == "coroutine" else result

    class Registry:
        pass

    reg = Registry()
    reg.entry = thing
    if which == "next":
        fn, args = next, (iter([thing]),)
    elif which == "list_pop":
        fn, args = [thing].pop, ()
    elif which == "dict_get":
        fn, args = {"k": thing}.get, ("k",)
    elif which == "getattr":
        fn, args = getattr, (reg, "entry")
    elif which == "operator_getitem":
        fn, args = operator.getitem, ([thing], 0)
    elif which == "deque_popleft":
        fn, args = collections.deque([thing]).popleft, ()
    else:
        fn, args = len, ([thing],)
    viols = []
    try:
        res = ("ok", drive(_await(A.sync(fn)(*args))))
    except BaseException as exc:  # noqa: BLE001
        res = ("raise", type(exc).__name__, str(exc)[:80])
    want = ("ok", 1) if which == "len" else ("ok", result)
    if not (res[0] == "ok" and res[1] is want[1] or res == want):
        viols.append({"key": "sync/result",
                      "msg": f"sync({which}) handing out a stored {stored} value: awaiting the call gave {res!r}, expected {want!r}"})
    if inspect_is_coroutine(thing):
        thing.close()
    if CTX.foreign:
        viols.append({"key": "sync/foreign-suspension", "msg": CTX.foreign[0]})
    stats["sync_builtin_callable_runs"] += 1
    return {"violations": viols, "nontrivial": True, "sig": ("sync_builtin", which, stored, susp)}


def inspect_is_coroutine(obj):
    import inspect
    return inspect.iscoroutine(obj)


def run_case(case, stats: Counter):
    if case["kind"] == "sync_builtin":
        return run_sync_builtin(case, stats)
    if case["kind"] == "sync_calling_conventions":
        return run_sync_calling_conventions(case, stats)
    if case["kind"] == "sync_related":
        return run_sync_related(case, stats)
    return {"any_iter": run_any_iter, "await_each": run_await_each, "apply": run_apply, "sync": run_sync,
            "sync_seq": run_sync_seq, "any_iter_fault": run_any_iter_fault,
            "await_each_fault": run_await_each_fault}[case["kind"]](case, stats)


def finish(stats, tier):
    for need in ("any_iter_runs", "await_each_runs", "apply_runs", "sync_runs", "sync_sequence_runs", "any_iter_fault_runs",
                 "await_each_fault_runs"):
        if not stats.get(need):
            return f"deciding counter {need} is zero"
    return None
