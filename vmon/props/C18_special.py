"""Stateful scenarios of C18: tee with lock, lru_cache, cached_property with lock, ExitStack, scoped_iter."""
from __future__ import annotations

import random

import asyncstdlib as A

from ..loop import CTX, drive, Cancel, Suspend, rr_strategy, FalsyCancel
from ..probes import Item, SrcState, Plan, make_source, VLock
from . import C08, C11, C12, C14

NEED = ("special_groupby_cancellations", "special_tee_cancellations", "special_lru_cancellations", "special_cached_property_cancellations",
        "special_exitstack_cancellations", "special_scoped_iter_cancellations")


def cases(tier, seed, shard, nshards, rng):
    n = {"quick": 1200, "thorough": 50000}[tier] // nshards
    for i in range(max(5, n)):
        kind = ["tee", "lru", "cached_property", "exitstack", "scoped", "groupby"][i % 6]
        if kind == "tee":
            order_len = rng.randint(1, 8)
            yield {"kind": "tee", "len": rng.randint(0, 4), "n": rng.choice([1, 2, 2, 3]), "susp": rng.choice([1, 2]),
                   # from this step on ONE child is left: its siblings are closed first, so a cancellation that hits it
                   # hits the last live child - the one that has to release the source
                   "solo_from": rng.randrange(order_len) if rng.random() < 0.4 else None,
                   "flav": rng.choice(["async_class", "async_gen", "async_class_bare", "async_class_proxy", "async_class_future"]),
                   "order": [rng.randrange(3) for _ in range(order_len)]}
        elif kind == "groupby":
            yield {"kind": "groupby", "keys": [rng.randrange(3) for _ in range(rng.randint(0, 6))],
                   "ops": [rng.choice(["adv", "adv", "grp"]) for _ in range(rng.randint(1, 7))],
                   "flav": rng.choice(["async_class", "async_class", "async_gen"]), "susp": rng.choice([1, 2]),
                   "key": rng.choice([None, "async"])}
        elif kind == "lru":
            nkeys = rng.randint(1, 3)
            yield {"kind": "lru", "c11": {"mode": "rr", "maxsize": rng.choice([None, 1, 2]),
                                          "tasks": [[["call", rng.randrange(nkeys)] if rng.random() < 0.85 else ["clear"]
                                                     for _ in range(rng.randint(1, 5))]
                                                    for _ in range(rng.choice([1, 1, 2, 3]))],
                                          "susp": rng.choice([1, 2]), "fail": [], "cancel_task": 0, "runs": 1, "seed": 0,
                                          "epilogue": [rng.randrange(nkeys + 1) for _ in range(rng.randint(3, 6))]}}
        elif kind == "cached_property":
            yield {"kind": "cached_property",
                   "c12": {"kind": "conc", "mode": "rr", "lock": rng.random() < 0.6, "awaiters": [rng.choice(["direct", "stored"]) for _ in range(rng.choice([1, 2, 3]))],
                           "repeat": rng.choice([1, 2]), "susp": rng.choice([1, 2]), "fail": [],
                           # the entry of the instance may change while the cancelled computation is suspended:
                           # a deleting task, a sibling await that finishes first, a sibling that is cancelled too
                           "deleter": rng.choice([None, None, 0, 1, 2]),
                           "cancel_both": rng.random() < 0.5,
                           "cancel_task": 0, "runs": 1, "seed": 0}}
        elif kind == "exitstack":
            m = rng.randint(1, 4)
            yield {"kind": "exitstack", "spec": [[rng.choice(C14.KINDS), rng.choice(C14.BEHS)] for _ in range(m)],
                   "body": rng.random() < 0.4, "susp": rng.choice([1, 2]), "body_susp": rng.choice([0, 1]),
                   "via_aclose": rng.random() < 0.4}
        else:
            yield {"kind": "scoped", "c08": {"block": C08.gen_block(rng, 1), "flav": rng.choice(["async_class", "async_gen", "async_class_proxy"]),
                                            "keys": [rng.randrange(4) for _ in range(rng.randint(1, 7))]}}


# ---------------------------------------------------------------------------

def run_tee(case, stats):
    viols, sigs = [], []

    def execute(cancel_at):
        CTX.reset()
        st = SrcState(0, [Item(i, (0, i)) for i in range(case["len"])], Plan(case["susp"]), log=False)
        src = make_source(st, case["flav"])
        lock = VLock("tee")
        exc = (FalsyCancel if cancel_at % 2 == 0 else Cancel)() if cancel_at is not None else None
        out = {}
        advanced = set()
        unstarted = set()  # children closed before their first advance (the recorded finding's mechanism)

        async def main():
            handle = A.tee(src, case["n"], lock=lock)
            try:
                solo = None
                for step, c in enumerate(case["order"]):
                    c %= case["n"]
                    if case.get("solo_from") is not None and step == case["solo_from"]:
                        solo = c
                        for other in range(case["n"]):
                            if other != solo:
                                if other not in advanced:
                                    unstarted.add(other)
                                await handle[other].aclose()
                    if solo is not None:
                        c = solo
                    advanced.add(c)
                    try:
                        await handle[c].__anext__()
                    except StopAsyncIteration:
                        pass
                out["end"] = "done"
            except Cancel as got:
                out["end"] = "cancel" if got is exc else "foreign-cancel"
                # "nothing poisoned": the children the cancellation did not go through keep working - each of
                # them can still be read to its end
                hit = c
                for other in range(case["n"]):
                    if other == hit:
                        continue
                    try:
                        async for _ in handle[other]:
                            pass
                    except BaseException as err:  # noqa: BLE001
                        out["survivor"] = f"child {other} failed after child {hit} was cancelled: {err!r}"
                        break
                    advanced.add(other)
            finally:
                await handle.aclose()

        drive(main(), cancel_at=cancel_at, cancel_exc=exc)
        out["unstarted"] = unstarted
        return st, lock, out, advanced, CTX.suspensions, list(CTX.foreign)

    st, lock, out, adv, nsus, _ = execute(None)
    evals = 0
    for i in range(1, nsus + 1):
        st, lock, out, advanced, _, foreign = execute(i)
        evals += 1
        stats["special_tee_cancellations"] += 1
        sigs.append(("tee", str(case), i))
        head = f"tee(lock) {case} cancel@{i}/{nsus}"
        if foreign:
            viols.append({"key": "tee/foreign-suspension", "msg": f"{head}: {foreign[0]}"})
        if out.get("end") != "cancel":
            viols.append({"key": "tee/cancel-not-propagated", "msg": f"{head}: ended {out.get('end')}"})
        if out.get("survivor"):
            viols.append({"key": "tee/poisoned-after-cancel", "msg": f"{head}: {out['survivor']}"})
        if lock.owner is not None:
            viols.append({"key": "tee/lock-held-after-cancel", "msg": f"{head}: lock owned by {lock.owner}"})
        if case["flav"] != "async_class_bare" and not st.released():
            key = "tee/unstarted-child-never-deregisters" if len(advanced) < case["n"] or out["unstarted"] else "tee/leak-after-cancel"
            viols.append({"key": key, "msg": f"{head}: source still open after cancellation and handle.aclose() "
                                             f"(children advanced: {sorted(advanced)})"})
    return {"violations": viols, "evals": max(1, evals), "sigs": sigs}


def run_groupby(case, stats):
    viols, sigs = [], []

    def execute(cancel_at):
        CTX.reset()
        st = SrcState(0, [Item(k, (0, i)) for i, k in enumerate(case["keys"])], Plan(case["susp"]), log=False)
        src = make_source(st, case["flav"])
        exc = (FalsyCancel if cancel_at % 2 == 0 else Cancel)() if cancel_at is not None else None
        out = {}

        async def akey(x):
            await Suspend(("key", x.uid), 1)
            return x.key

        async def main():
            gb = A.groupby(src, key=akey) if case["key"] == "async" else A.groupby(src)
            group = None
            try:
                for op in case["ops"]:
                    try:
                        if op == "adv":
                            _, group = await gb.__anext__()
                        elif group is not None:
                            await group.__anext__()
                    except StopAsyncIteration:
                        pass
                out["end"] = "done"
            except Cancel as got:
                out["end"] = "cancel" if got is exc else "foreign-cancel"
            finally:
                await gb.aclose()

        drive(main(), cancel_at=cancel_at, cancel_exc=exc)
        return st, out, CTX.suspensions, list(CTX.foreign), list(CTX.token_owners)

    _, _, nsus, _, _ = execute(None)
    for i in range(1, nsus + 1):
        st, out, _, foreign, owners = execute(i)
        stats["special_groupby_cancellations"] += 1
        sigs.append(("groupby", str(case), i))
        head = f"groupby {case} cancel@{i}/{nsus}"
        if foreign:
            viols.append({"key": "groupby/foreign-suspension", "msg": f"{head}: {foreign[0]}"})
        if out.get("end") != "cancel":
            viols.append({"key": "groupby/cancel-not-propagated", "msg": f"{head}: ended {out.get('end')}"})
        if not st.released():
            viols.append({"key": "groupby/leak-after-cancel",
                          "msg": f"{head}: source still open after cancellation (inside {owners[i - 1]}) and groupby.aclose()"})
    return {"violations": viols, "evals": max(1, nsus), "sigs": sigs}


def run_lru(case, stats):
    c11 = case["c11"]
    _, info = C11.execute(c11, rr_strategy())
    n = info["suspensions"][0]
    viols, sigs = [], []
    for i in range(1, n + 1):
        v, inf = C11.execute(c11, rr_strategy(), cancel_at=i)
        stats["special_lru_cancellations"] += 1
        sigs.append(("lru", str(c11), i))
        if not inf.get("cancelled"):
            viols.append({"key": "lru_cache/cancel-not-propagated", "msg": f"lru {c11} cancel@{i}"})
        for key, msg in v:
            viols.append({"key": key, "msg": f"lru {c11} cancel@{i}: {msg}"[:1200]})
    return {"violations": viols, "evals": max(1, n), "sigs": sigs}


def run_cached_property(case, stats):
    c12 = case["c12"]
    v0, info = C12.execute(c12, rr_strategy())
    n = info["suspensions"][0]
    viols, sigs = [], []
    for key, msg in v0:  # the run nothing is thrown into: where the cancellation points are counted
        viols.append({"key": key, "msg": f"cached_property {c12} without cancellation: {msg}"[:1200]})
    seconds = [None]
    if c12.get("cancel_both") and len(c12["awaiters"]) > 1:
        seconds += [[1, j] for j in range(1, info["suspensions"][1] + 1)]
    evals = 0
    for i in range(1, n + 1):
        for second in seconds:
            cx = dict(c12, cancel2=second) if second else c12
            v, inf = C12.execute(cx, rr_strategy(), cancel_at=i)
            evals += 1
            stats["special_cached_property_cancellations"] += 1
            if second:
                stats["special_cached_property_two_awaiters_cancelled"] += 1
            sigs.append(("cp", str(c12), i, str(second)))
            if not inf.get("cancelled"):
                viols.append({"key": "cached_property/cancel-not-propagated", "msg": f"cached_property {cx} cancel@{i}"})
            for key, msg in v:
                viols.append({"key": key, "msg": f"cached_property {cx} cancel@{i}: {msg}"[:1200]})
    return {"violations": viols, "evals": max(1, evals), "sigs": sigs}


def run_exitstack(case, stats):
    spec, body, susp = case["spec"], case["body"], case["susp"]
    n = len(spec)

    def nested(cancel_at, exc):
        CTX.reset()
        log = []
        ents = [C14.mk_entry(k, b, i, log, susp, i) for i, (k, b) in enumerate(spec)]
        body_exc = C14.E("body")

        async def nest(i):
            if i == n:
                log.append(("body",))
                if case["body_susp"]:
                    await Suspend("body", case["body_susp"])
                if body:
                    raise body_exc
                return
            k, _ = spec[i]
            e = ents[i]
            if k == "acm":
                async with e:
                    await nest(i + 1)
            elif k == "scm":
                with e:
                    await nest(i + 1)
            elif k == "apush":
                class W:
                    async def __aenter__(self):
                        pass

                    async def __aexit__(self, *x):
                        return await e(*x)

                async with W():
                    await nest(i + 1)
            elif k == "spush":
                class W:
                    async def __aenter__(self):
                        pass

                    async def __aexit__(self, *x):
                        return e(*x)

                async with W():
                    await nest(i + 1)
            else:
                class W:
                    async def __aenter__(self):
                        pass

                    async def __aexit__(self, *x):
                        e(i, kw=i)
                        return False

                async with W():
                    await nest(i + 1)

        try:
            drive(nest(0), cancel_at=cancel_at, cancel_exc=exc)
            res = ("ok",)
        except C14.E as x:
            res = ("raise", x.n, x is body_exc)
        except Cancel as x:
            res = ("cancel", x is exc)
        return res, log, CTX.suspensions

    def stacked(cancel_at, exc):
        CTX.reset()
        log = []
        ents = [C14.mk_entry(k, b, i, log, susp, i) for i, (k, b) in enumerate(spec)]
        body_exc = C14.E("body")

        async def fill(s):
            for i, (k, _) in enumerate(spec):
                e = ents[i]
                if k in ("acm", "scm"):
                    await s.enter_context(e)
                elif k in ("apush", "spush"):
                    s.push(e)
                else:
                    s.callback(e, i, kw=i)
            log.append(("body",))
            if case["body_susp"]:
                await Suspend("body", case["body_susp"])
            if body:
                raise body_exc

        async def st():
            if case.get("via_aclose") and not body:
                # the stack is not used as a context manager: it is filled and then unwound by aclose() - the same
                # unwinding as a with-block that ends normally, also when a cancellation arrives inside one of the exits
                # (a failure or cancellation while it is being filled is handed to the stack by hand, as the with
                # statement would)
                s = A.ExitStack()
                try:
                    await fill(s)
                except BaseException as exc:  # noqa: BLE001
                    if not await s.__aexit__(type(exc), exc, exc.__traceback__):
                        raise
                else:
                    await s.aclose()
                return
            async with A.ExitStack() as s:
                await fill(s)

        try:
            drive(st(), cancel_at=cancel_at, cancel_exc=exc)
            res = ("ok",)
        except C14.E as x:
            res = ("raise", x.n, x is body_exc)
        except Cancel as x:
            res = ("cancel", x is exc)
        return res, log, CTX.suspensions, list(CTX.foreign)

    _, _, nsus = nested(None, None)
    viols, sigs = [], []
    for i in range(1, nsus + 1):
        kind = FalsyCancel if i % 2 == 0 else Cancel  # (every other cancellation object tests false)
        e1, e2 = kind(), kind()
        r1, l1, _ = nested(i, e1)
        r2, l2, _, foreign = stacked(i, e2)
        stats["special_exitstack_cancellations"] += 1
        sigs.append(("exitstack", str(case), i))
        if foreign:
            viols.append({"key": "ExitStack/foreign-suspension", "msg": foreign[0]})
        if (r1, l1) != (r2, l2):
            viols.append({"key": "ExitStack/cancellation-unwind-differs-from-nested-statements",
                          "msg": f"stack {spec} body={body} susp={susp} cancel@{i}/{nsus}: nested {r1} {l1} vs ExitStack {r2} {l2}"[:1300]})
    return {"violations": viols, "evals": max(1, nsus), "sigs": sigs}


def run_scoped(case, stats):
    c08 = case["c08"]
    _, info = C08.execute(c08, susp=1)
    viols, sigs = [], []
    n = info["suspensions"]
    for i in range(1, n + 1):
        v, inf = C08.execute(c08, susp=1, cancel_at=i)
        stats["special_scoped_iter_cancellations"] += 1
        sigs.append(("scoped", str(c08), i))
        if inf["exit"] != "cancel":
            viols.append({"key": "scoped_iter/cancel-not-propagated", "msg": f"scoped {c08} cancel@{i}: exit {inf['exit']}"})
        viols.extend(v)
    return {"violations": viols, "evals": max(1, n), "sigs": sigs}


def run_case(case, stats):
    return {"groupby": run_groupby, "tee": run_tee, "lru": run_lru, "cached_property": run_cached_property, "exitstack": run_exitstack,
            "scoped": run_scoped}[case["kind"]](case, stats)
