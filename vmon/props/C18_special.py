"""Stateful scenarios of C18 (tee with lock, caches, ExitStack, scoped_iter) - filled in below."""
NEED = ()


def cases(tier, seed, shard, nshards, rng):
    return iter(())


def run_case(case, stats):
    raise NotImplementedError(case["kind"])
