"""C01 — iterator tools produce exactly what their stdlib namesakes produce."""
from __future__ import annotations

import random
from collections import Counter

from .. import gen
from ..tools import run_sync_side, run_async_side, first_diff

ID = "C01"
LEVEL = "exploration"
ANCHORS = ["builtins.py", "itertools.py", "heapq.py", "_core.py"]
RULE = ("differential run of every iterator tool against its stdlib twin on the same data (Items ordered/equal by key, "
        "distinguishable by uid): enumerated islice argument tuples x lengths, batched sizes x lengths, all length "
        "vectors 0..3 for 1..4 iterables (zip, zip strict, zip_longest, map, chain, merge), plus seeded random specs "
        "for all 22 tool variants and tee consumption patterns; a case is non-trivial if some input is non-empty and "
        "it has a tie among keys, unequal lengths or a non-default parameter; distinct = distinct spec+flavours")
RULE += (' Also: ONE single-use iterator passed as several arguments; plain None/falsy values as items of every single-source tool and of tee; zero iterables; results compared for aliasing (which outputs are the same object as which inputs) on raw mutable items; reductions whose result is None/falsy.')
RULE += (' Also: raw inputs with partially defined predicates (x < 2 over numbers, None, strings, tuples) for filter/filterfalse/takewhile/dropwhile.')
RULE += (' Also: iter(callable, sentinel) with items whose comparison fails, and with one-sided equality (operand order of ==); iterables that are not iterators; opaque payloads (no truth value / equality / hash).')
RULE += (' Also: callables of every flavour (def, async def, partial, call object, object returning a non-coroutine awaitable).')
RULE += (' Also: a callable whose first result is plain and whose later results are awaitable payload.')
RULE += (' Also: iter(callable, sentinel) asked again after its end stays ended and does not call the callable; an identical sentinel object that cannot be compared at all.')
RULE += (' Also: iter(callable, None) over values that consider themselves equal to None.')
RULE += (' Also: zip(strict=<true object that is not True>) is strict.')
RULE += (' Also: starmap argument records that offer both iteration protocols are unpacked synchronously.')
RULE += (' Also: lazily produced sources that are collections.abc.Sequence instances (asked for ONE iterator, never indexed).')
ASSUMPTIONS = ["the stdlib of the running interpreter (3.12) is the reference",
               "documented deviations encoded: accumulate([]) without initial raises TypeError; tee handle indexable",
               "batched(strict=True) reference = itertools.batched + ValueError on a short batch (3.13 semantics)"]
EXHAUSTIVE_SUBSPACES = 'every islice (start,stop,step) tuple over start in {None,0..4}, stop in {None,0..6}, step in {None,1,2,3} and the 1- and 2-argument forms x lengths 0..7 (quick: 0..5); batched n=1..5 x strict in {absent,False,True} x lengths; every length vector 0..3 for 1..4 iterables (quick: 1..3) for zip, zip strict, zip_longest, chain, chain.from_iterable, map, merge (all-equal keys, increasing keys, constant key; both directions)'
EXHAUSTIVE = {"quick": False, "thorough": False}

N_RANDOM = {"quick": 150000, "thorough": 8000000}
FLAVS = ["list", "list", "async_gen", "async_class", "sync_iter", "tuple", "getitem_seq", "sync_gen", "async_class_bare", "async_iterable", "sync_iterable", "sync_mapping", "sync_sequence"]


def cases(tier, seed, shard, nshards):
    idx = 0
    for spec in gen.enum_iter_specs(small=(tier == "quick")):
        idx += 1
        if idx % nshards == shard:
            if spec.get("same"):
                # one single-use iterator as several arguments: iterator flavours only (a list given twice is two
                # independent iterations)
                for fl in ("sync_iter", "async_class", "async_gen", "sync_gen"):
                    yield {"spec": spec, "flav": fl}
            else:
                yield {"spec": spec, "flav": "list"}
    rng = random.Random(f"C01-{seed}-{shard}")
    n = N_RANDOM[tier] // nshards
    names = gen.ITER_TOOL_NAMES + ["tee"]
    for i in range(n):
        name = names[i % len(names)]
        if name == "tee":
            nchild = rng.choice([1, 2, 3, 4])
            ks = gen.keys_seq(rng, 5)
            ops = [rng.randrange(nchild) for _ in range(rng.randint(0, 3 * len(ks) + 4))]
            if rng.random() < 0.5:
                # some children are closed (dropped) midway - but only ones that were advanced before:
                # a child closed before its first advance is the recorded known finding of C04/C09
                for _ in range(rng.randint(1, 2)):
                    if ops:
                        at = rng.randrange(len(ops))
                        started = [c for c in set(o for o in ops[:at] if isinstance(o, int))]
                        if started:
                            ops.insert(at, ["close", rng.choice(started)])
            spec = {"tool": "tee", "srcs": [ks], "fns": [], "params": {"n": nchild}, "ops": ops}
            if rng.random() < 0.15:
                # plain values incl. None / falsy ones pass through the buffers like anything else
                spec["raw"] = True
                spec["srcs"] = [[rng.choice([None, None, 0, False, "", 1, ["T"]]) for _ in ks]]
        else:
            spec = gen.iter_spec(rng, name)
        # the callables come in every flavour too (plain, async def, partial, call object, an object whose call gives
        # a non-coroutine awaitable): the items must not depend on it
        yield {"spec": spec, "flav": rng.choice(FLAVS), "fnfl": rng.choice(["def", "def", "async_def", "callobj", "awaitobj", "partial"])}


def expected(spec, sync):
    """Apply the documented deviations to the stdlib outcome."""
    if spec["tool"] == "accumulate" and not spec["srcs"][0] and "initial" not in spec["params"]:
        return [], ("raise", "TypeError", False)
    return sync.out, sync.term


def classify(spec, exp_out, exp_term, got_out, got_term):
    tool = spec["tool"]
    if tool == "merge" and spec["params"].get("reverse") and exp_term == got_term \
            and sorted(map(repr, exp_out)) == sorted(map(repr, got_out)):
        return "merge/reverse-tie-order"
    if tool == "merge" and exp_term == got_term and sorted(map(repr, exp_out)) == sorted(map(repr, got_out)):
        return "merge/tie-order"
    if tool == "iter_sentinel" and "identical_at" in spec["params"] and spec.get("raw"):
        return "iter_sentinel/identity-shortcut"
    if tool == "accumulate" and spec["params"].get("initial") == ["none"] and list(got_out[:1]) == [("v", "NoneType", None)] \
            and list(exp_out[:1]) != [("v", "NoneType", None)]:
        # exactly the recorded mechanism: None is treated as a value and yielded first
        return "accumulate/initial-none"
    if exp_term != got_term:
        return f"{tool}/termination"
    return f"{tool}/items"


def run_case(case, stats: Counter):
    spec = case["spec"]
    tool = spec["tool"]
    flav = case.get("flav", "list")
    steps = spec.get("steps")
    ops = spec.get("ops")
    keep = bool(spec.get("raw")) and tool != "tee"
    sync = run_sync_side(spec, steps=steps, log=False, ops=ops, keep_objs=keep)
    nfn = len(spec.get("fns", []))
    asy = run_async_side(spec, flavours=[flav] * len(spec["srcs"]), fn_flavours=[case.get("fnfl", "def")] * nfn,
                         steps=steps, log=False, ops=ops, keep_objs=keep,
                         outer_flavour=flav if flav in ("list", "async_gen", "async_class", "sync_iter") else "list")
    exp_out, exp_term = expected(spec, sync)
    stats[f"runs_{tool}"] += 1
    lens = [len(s) for s in spec["srcs"]]
    tie = gen.has_tie(spec)
    if tie:
        stats["with_ties"] += 1
    if len(set(lens)) > 1:
        stats["unequal_lengths"] += 1
    if not any(lens):
        stats["empty_inputs"] += 1
    if tool == "merge" and len(lens) > 1 and len(set(repr(k) for s in spec["srcs"] for k in s)) < sum(lens):
        stats["merge_ties_across_iterables"] += 1
    stats["items_compared"] += len(exp_out)
    viols = []
    if asy.foreign:
        viols.append({"key": f"{tool}/foreign-suspension", "msg": asy.foreign[0]})
    if list(exp_out) != list(asy.out) or tuple(exp_term) != tuple(asy.term):
        d = first_diff(list(exp_out), list(asy.out))
        key = classify(spec, exp_out, exp_term, asy.out, asy.term)
        viols.append({"key": key,
                      "msg": f"{tool} {spec['params']} srcs={spec['srcs']} flav={flav}: first difference at output {d}; "
                             f"stdlib ends {exp_term}, asyncstdlib ends {asy.term}",
                      "detail": {"expected": exp_out, "got": asy.out, "exp_term": exp_term, "got_term": asy.term}})
    if keep and not viols and (sync.final_out, sync.alias, sync.items_changed) != (asy.final_out, asy.alias, asy.items_changed):
        stats["object_identity_patterns_compared"] += 1
        viols.append({"key": f"{tool}/yielded-objects-aliased-or-mutated",
                      "msg": f"{tool} {spec['params']} fns={spec.get('fns')} srcs={spec['srcs']} flav={flav}: after the run the "
                             f"yielded objects read {asy.final_out} (identity pattern {asy.alias}, inputs modified: "
                             f"{asy.items_changed}); stdlib: {sync.final_out} (pattern {sync.alias}, inputs modified: "
                             f"{sync.items_changed})"})
    elif keep:
        stats["object_identity_patterns_compared"] += 1
    nontrivial = any(lens) and (tie or len(set(lens)) > 1 or bool(spec["params"]))
    return {"violations": viols, "nontrivial": nontrivial, "sig": (spec, flav)}


def finish(stats, tier):
    for need in ("with_ties", "unequal_lengths", "empty_inputs", "merge_ties_across_iterables"):
        if not stats.get(need):
            return f"deciding counter {need} is zero"
    return None
