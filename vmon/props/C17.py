"""C17 — event-loop agnostic: the library suspends only where user awaitables suspend."""
from __future__ import annotations

import os
import random
import subprocess
import sys
from collections import Counter

import asyncstdlib as A

from .. import gen
from ..loop import CTX, drive, Suspend, run_sync, run_finalizers
from ..probes import Item, canon, VLock
from ..tools import run_async_side

ID = "C17"
LEVEL = "exploration"
ANCHORS = ["_core.py", "builtins.py", "itertools.py", "heapq.py", "functools.py", "_lrucache.py", "contextlib.py",
           "asynctools.py"]
RULE = ("every public operation (all iterator tools and aggregations via seeded call specs, plus a catalogue of "
        "lru_cache, cache, cached_property with lock, contextmanager, ContextDecorator, ExitStack, closing, "
        "nullcontext, tee with lock, groupby, borrow, scoped_iter, await_each, any_iter, apply, sync, anext, iter) is "
        "driven by hand with send/throw on a loop that exchanges unique tokens and unique replies: every object "
        "surfacing from the library must BE the token the running user probe just emitted and every probe must "
        "receive exactly the reply (or thrown Poke) the loop sent for its token; user awaitables suspend 1..3 times; "
        "a Poke is thrown at EVERY suspension position of every scenario and must be absorbed by the probe with an "
        "unchanged final result; with all-synchronous arguments the operation must finish without suspending at all; "
        "CALL events (sys.monitoring, local to all asyncstdlib code objects) must show no call into asyncio other "
        "than iscoroutinefunction, the loaded modules' namespaces must hold nothing of asyncio but iscoroutinefunction, "
        "26 tools over all-synchronous inputs of 5000..150000 items must not suspend either; a fresh interpreter importing and using the library must have no running/current "
        "asyncio loop. one evaluation = one driven run; non-trivial = run with >= 1 suspension (or an all-sync run); "
        "distinct = (scenario or spec, suspensions, poke position)")
RULE += (' Also: catalogue scenarios with every protocol slot filled by a restart-sensitive non-coroutine awaitable, and a contextmanager-made context left by GeneratorExit whose clean-up suspends; future-like source flavour.')
RULE += (" Also: close / scope exit during another task's pending read (scenarios of C07), judged on foreign suspensions.")
RULE += (' Also: items that happen to be awaitable (payload) through every tool with synchronous arguments: never awaited.')
RULE += (' Also: tools left after k items over class-based sources whose own aclose suspends, under a loop with and without async generator hooks: no clean-up awaitable is killed, none is pending when aclose() returns, nothing unraisable.')
RULE += (' Also: synchronous callables whose later results are awaitable payload.')
RULE += (' Also: large all-synchronous runs (70 000+ items) repeated, driven by hand, inside a running asyncio loop.')
RULE += (" Also: a tee closed (aclose / async-with exit / child close) during another task's pending read, also inside a running asyncio loop.")
RULE += (' Also: plain generator functions as callables (nothing reaches the loop, generators come out unstarted).')
RULE += (' Also: synchronous managers whose enter value is awaitable payload / a generator.')
RULE += (' Also: an awaitable fill value of zip_longest over several padding rounds.')
RULE += (' Also: sources that are awaitable and asynchronously iterable (every tool but any_iter).')
RULE += (' Also: synchronous mappings whose values are awaitable jobs handed to tools as (synchronous) iterables: no suspension, no job awaited.')
RULE += (' Also: all / any / min / tuple / sorted / nsmallest / dropwhile / filterfalse / filter(None) / chain.from_iterable / iter(callable, sentinel) / scoped_iter / borrow / anext over large synchronous inputs and over items that are awaitable jobs.')
RULE += (' Also: comparisons (==, <) of user keys answering with awaitable objects: only their truth value is used (iter with sentinel, groupby, max, sorted).')
RULE += (' Also: expression objects whose sum is an awaitable expression (sum); classes with an async __call__ used as callables (their instances are results).')
RULE += (' Also: accumulate (default addition) over expression objects whose sums are awaitable.')
RULE += (' Also: future-like awaitables report done() and offer result() (read on the side = not awaited: a foreign action).')
ASSUMPTIONS = ["a loop that checks identity of every token and reply is at least as strict as any real event loop",
               "C functions called from asyncstdlib code are visible to sys.monitoring CALL events"]
EXHAUSTIVE = {"quick": False, "thorough": False}
N_SPECS = {"quick": 5000, "thorough": 300000}
MAX_SHARDS = 16

ASYNCIO_CALLS = []


def install_asyncio_call_monitor():
    """Record calls from asyncstdlib code into asyncio (except iscoroutinefunction)."""
    mon = sys.monitoring
    tool = 4
    try:
        mon.use_tool_id(tool, "vmon-asyncio-calls")
    except ValueError:
        return 0
    root = os.path.dirname(A.__file__)
    codes = set()

    def walk(code):
        if code in codes:
            return
        codes.add(code)
        for const in code.co_consts:
            if hasattr(const, "co_code"):
                walk(const)

    for name, mod in list(sys.modules.items()):
        if not name.startswith("asyncstdlib") or mod is None:
            continue
        path = getattr(mod, "__file__", None)
        if not path or not path.startswith(root):
            continue
        with open(path) as fh:
            walk_src = compile(fh.read(), path, "exec")
        # the live code objects are the ones attached to live functions; find them via the module namespace
        stack = list(vars(mod).values())
        seen = set()
        while stack:
            obj = stack.pop()
            if id(obj) in seen:
                continue
            seen.add(id(obj))
            code = getattr(obj, "__code__", None)
            if code is not None and getattr(code, "co_filename", "").startswith(root):
                walk(code)
            if isinstance(obj, type) and getattr(obj, "__module__", "").startswith("asyncstdlib"):
                stack.extend(vars(obj).values())
            if isinstance(obj, (staticmethod, classmethod)):
                stack.append(obj.__func__)
            if isinstance(obj, property):
                stack.extend([obj.fget, obj.fset, obj.fdel])
        del walk_src

    def on_call(code, offset, callable_, arg0):
        mod = getattr(callable_, "__module__", None) or ""
        if mod == "asyncio" or mod.startswith("asyncio.") or mod == "_asyncio":
            name = getattr(callable_, "__name__", repr(callable_))
            if name != "iscoroutinefunction":
                ASYNCIO_CALLS.append(f"{code.co_name} -> {mod}.{name}")
        return None

    mon.register_callback(tool, mon.events.CALL, on_call)
    for code in codes:
        mon.set_local_events(tool, code, mon.events.CALL)
    return len(codes)


_MONITORED = {"n": None}


LARGE_TOOLS = ["list", "sum", "max", "map", "zip", "reduce", "accumulate", "islice", "chain", "nlargest", "filter",
               "enumerate", "batched", "takewhile", "pairwise", "zip_longest", "merge", "tee", "groupby", "sorted_key",
               "any_iter", "cycle", "compress", "starmap", "dict", "set", "sorted_async_src", "sorted_reverse", "min_async_src",
               "all", "any", "min", "tuple", "sorted", "nsmallest", "dropwhile", "filterfalse", "filter_none",
               "chain_from_iterable", "iter_sentinel", "scoped_iter", "borrow", "anext_default", "map_async_src"]


def cases(tier, seed, shard, nshards):
    if shard == 0:
        yield {"kind": "fresh-interpreter"}
        yield {"kind": "namespace"}
        for flav in ("async_class", "async_gen", "async_class_bare"):
            for reborrow in (False, True):
                for via in ("handle", "parent", "scope"):
                    for susp in (1, 2):
                        for close_at in (1, 2, 3):
                            yield {"kind": "pending-read-close",
                                   "c07": {"kind": "conc_close", "flav": flav, "reborrow": reborrow, "close_at": close_at,
                                           "susp": susp, "via": via}}
        for tool in ("map", "map2", "starmap", "filter", "takewhile", "accumulate", "reduce", "iter", "exitstack", "sync",
                     "enter_payload", "enter_generator", "zip_longest_payload_fill"):
            yield {"kind": "generator-callable", "tool": tool}
        for tool in ("iter_sentinel", "groupby", "groupby_nokey", "max_key", "sorted_key", "sum_expressions",
                     "sum_expressions_start", "accumulate_expressions", "accumulate_expressions_initial", "map_class_with_async_call", "starmap_class_with_async_call",
                     "sorted_key_class_with_async_call"):
            yield {"kind": "awaitable-comparison", "tool": tool}
        for tool in MAPPING_TOOLS:
            for shape in ("dict", "mapping_class", "first_plain", "empty"):
                yield {"kind": "mapping-argument", "tool": tool, "shape": shape}
        for flav in ("async_class", "async_gen"):
            for n in (1, 2):
                for lock in (False, True):
                    for via in ("aclose", "with", "same_child", "other_child"):
                        for susp in (1, 2):
                            for close_at in (1, 2, 3):
                                yield {"kind": "tee-pending-close", "flav": flav, "n": n, "lock": lock, "via": via,
                                       "susp": susp, "close_at": close_at}
    kk = 0
    for name in CLOSE_TOOLS:
        for k in (0, 1, 2, 3):
            kk += 1
            if kk % nshards == shard:
                yield {"kind": "close-tokens", "tool": name, "k": k, "hooks": "none"}
                yield {"kind": "close-tokens", "tool": name, "k": k, "hooks": "driver"}
    sizes = [5000, 20000, 70000] if tier == "quick" else [5000, 20000, 70000, 150000, 300000]
    k = 0
    for n in sizes:
        for name in LARGE_TOOLS:
            k += 1
            if k % nshards == shard:
                yield {"kind": "large-sync", "tool": name, "n": n}
                if n >= 70000:
                    # the same, driven by hand INSIDE a running asyncio loop: a library that asks asyncio for "the
                    # running loop" (to off-load work, to yield to it) finds one here
                    yield {"kind": "large-sync", "tool": name, "n": n, "inside_asyncio": True}
    for m in (1, 2, 7):
        for name in LARGE_TOOLS + ["map_later_payload", "reduce_later_payload", "accumulate_later_payload"]:
            if name in ("any_iter", "iter_sentinel"):
                # (any_iter awaits awaitable items by contract; a callable RETURNING an awaitable is an asynchronous
                # callable by the library's rule)
                continue
            k += 1
            if k % nshards == shard:
                yield {"kind": "large-sync", "tool": name, "n": m, "payload": "jobs"}
    rng = random.Random(f"C17-{seed}-{shard}")
    n = N_SPECS[tier] // nshards
    names = gen.ITER_TOOL_NAMES + gen.AGG_NAMES
    for i in range(n):
        name = names[i % len(names)]
        spec = gen.agg_spec(rng, name, 4) if name in gen.AGG_NAMES else gen.iter_spec(rng, name, 4)
        if name == "cycle":
            spec["steps"] = rng.randint(1, 6)
        yield {"kind": "spec", "spec": spec, "susp": rng.choice([1, 2, 3]), "fn_susp": rng.choice([0, 1, 2]),
               # (an awaitable iterator is not handed to any_iter, whose contract is to await an awaitable argument)
               "flav": [rng.choice(["async_gen", "async_class", "async_class_future"] + (["async_class_awaitable"] if name != "any_iter" else []))
                        for _ in spec["srcs"]], "fnfl": rng.choice(["async_def", "callobj", "awaitobj"])}
    for i, name in enumerate(sorted(CATALOGUE)):
        if i % nshards == shard:
            for susp in (1, 2, 3):
                yield {"kind": "catalogue", "name": name, "susp": susp}
            yield {"kind": "catalogue-sync", "name": name}


# ---------------------------------------------------------------------------
# catalogue of the stateful / non-spec operations
# ---------------------------------------------------------------------------

def _agen(n, susp, tag="s"):
    async def gen_():
        for i in range(n):
            if susp:
                await Suspend((tag, i), susp)
            yield Item(i, (tag, i))
    return gen_()


async def sc_lru(susp):
    calls = []

    @A.lru_cache(maxsize=2)
    async def f(x):
        calls.append(x)
        if susp:
            await Suspend(("f", x), susp)
        return ("r", x)

    out = [await f(1), await f(2), await f(1), await f(3), await f(2)]
    return out, calls, tuple(f.cache_info())


async def sc_cache(susp):
    @A.cache
    async def f(x):
        if susp:
            await Suspend(("f", x), susp)
        return ("r", x)

    return [await f(1), await f(1)], tuple(f.cache_info())


async def sc_cached_property(susp):
    class K:
        @A.cached_property(VLock)
        async def p(self):
            if susp:
                await Suspend("getter", susp)
            return "value"

    k = K()
    a = await k.p
    b = await k.p
    del k.p
    c = await k.p
    return a, b, c


async def sc_cached_property_nolock(susp):
    class K:
        @A.cached_property
        async def p(self):
            if susp:
                await Suspend("getter", susp)
            return "value"

    k = K()
    return await k.p, await k.p


async def sc_contextmanager(susp):
    log = []

    @A.contextmanager
    async def cm(x):
        if susp:
            await Suspend("enter", susp)
        log.append("enter")
        try:
            yield x
        finally:
            if susp:
                await Suspend("exit", susp)
            log.append("exit")

    async with cm(5) as v:
        log.append(v)

    @cm(6)
    async def decorated(y):
        if susp:
            await Suspend("body", susp)
        return y * 2

    return log, await decorated(4)


async def sc_context_decorator(susp):
    log = []

    class D(A.ContextDecorator):
        async def __aenter__(self):
            if susp:
                await Suspend("enter", susp)
            log.append("enter")

        async def __aexit__(self, *exc):
            if susp:
                await Suspend("exit", susp)
            log.append("exit")

    @D()
    async def f():
        return "x"

    return await f(), log


async def sc_exitstack(susp):
    log = []

    class CM:
        def __init__(self, n):
            self.n = n

        async def __aenter__(self):
            if susp:
                await Suspend(("enter", self.n), susp)
            log.append(("enter", self.n))
            return self.n

        async def __aexit__(self, et, ev, tb):
            if susp:
                await Suspend(("exit", self.n), susp)
            log.append(("exit", self.n, et.__name__ if et else None))
            return self.n == 1

    class SCM:
        def __enter__(self):
            log.append("senter")

        def __exit__(self, *a):
            log.append("sexit")

    async def acb(x):
        if susp:
            await Suspend("cb", susp)
        log.append(("cb", x))

    try:
        async with A.ExitStack() as stack:
            await stack.enter_context(CM(1))
            await stack.enter_context(SCM())
            stack.callback(acb, 7)
            stack.callback(log.append, "synccb")
            await stack.enter_context(CM(2))
            raise KeyError("body")
    except KeyError:
        log.append("leaked")
    stack2 = A.ExitStack()
    await stack2.enter_context(CM(3))
    moved = stack2.pop_all()
    await stack2.aclose()
    await moved.aclose()
    return log


async def sc_closing_nullcontext(susp):
    log = []

    class Thing:
        async def aclose(self):
            if susp:
                await Suspend("aclose", susp)
            log.append("closed")

    async with A.closing(Thing()) as t:
        log.append(type(t).__name__)
    async with A.nullcontext(3) as v:
        log.append(v)
    return log


async def sc_tee_lock(susp):
    lock = VLock("tee")
    async with A.tee(_agen(3, susp), 2, lock=lock) as (a, b):
        out = []
        async for x in a:
            out.append(canon(x))
            out.append(canon(await A.anext(b)))
    return out


async def sc_tee_nolock(susp):
    a, b, c = A.tee(_agen(3, susp), 3)
    return [canon(x) for x in await A.list(a)], [canon(x) for x in await A.list(b)], [canon(x) for x in await A.list(c)]


async def sc_groupby(susp):
    async def key(x):
        if susp:
            await Suspend("key", susp)
        return x.key // 2

    out = []
    async for k, g in A.groupby(_agen(5, susp), key=key):
        out.append((k, [canon(x) async for x in g]))
    return out


async def sc_borrow_scoped(susp):
    src = _agen(6, susp)
    out = []
    async with A.scoped_iter(src) as it:
        out.append([canon(x) async for x in A.islice(it, 2)])
        b = A.borrow(it)
        out.append(canon(await A.anext(b)))
        await b.aclose()
        out.append([canon(x) async for x in A.islice(it, 2)])
    return out


async def sc_await_each(susp):
    async def aw(i):
        if susp:
            await Suspend(("aw", i), susp)
        return i

    return [x async for x in A.await_each([aw(1), aw(2), aw(3)])]


async def sc_any_iter(susp):
    async def outer():
        if susp:
            await Suspend("outer", susp)
        return [item(1), 2, item(3)]

    async def item(i):
        if susp:
            await Suspend(("item", i), susp)
        return i

    a = [x async for x in A.any_iter(outer())]
    b = [canon(x) async for x in A.any_iter(_agen(2, susp))]
    return a, b


async def sc_apply_sync(susp):
    async def aw(i):
        if susp:
            await Suspend(("aw", i), susp)
        return i

    r1 = await A.apply(lambda a, b, c=0: (a, b, c), aw(1), aw(2), c=aw(3))
    r2 = await A.sync(lambda x: x + 1)(4)
    afn = A.sync(aw)
    return r1, r2, await afn(9)


async def sc_anext_iter(susp):
    it = A.iter(_agen(2, susp))
    a = await A.anext(it)
    b = await A.anext(it)
    c = await A.anext(it, "default")
    state = {"n": 0}

    async def feed():
        state["n"] += 1
        if susp:
            await Suspend(("feed", state["n"]), susp)
        return state["n"]

    d = [x async for x in A.iter(feed, 3)]
    return canon(a), canon(b), c, d


async def sc_cm_generatorexit(susp):
    """A contextmanager-made context inside an async generator that is closed early: the context is left by
    GeneratorExit and its clean-up awaits something that suspends."""
    log = []

    @A.contextmanager
    async def cm(tag):
        if susp:
            await Suspend(("acquire", tag), susp)
        try:
            yield tag
        finally:
            if susp:
                await Suspend(("release", tag), susp)
            log.append(("released", tag))

    async def agen(tag):
        async with cm(tag) as v:
            yield v
            yield v

    out = []
    g = agen("a")
    out.append(await g.__anext__())
    await g.aclose()
    g = agen("b")
    out.append(await g.__anext__())
    try:
        await g.athrow(GeneratorExit)
    except (GeneratorExit, StopAsyncIteration):
        out.append("closed")
    async with A.ExitStack() as stack:
        g = agen("c")
        out.append(await g.__anext__())
        stack.callback(g.aclose)
    return out, log


class FutureLike:
    """A user awaitable that is not a coroutine: every ``__await__`` call starts a fresh run.

    The await protocol calls ``__await__`` exactly once per ``await``.  A relay that asks for it again
    (for instance once per resumption) restarts the user's work; that is recorded as a foreign event.
    """

    def __init__(self, tag, susp, result=None, raises=None):
        self.tag, self.susp, self.result, self.raises, self.awaits = tag, susp, result, raises, 0

    # (future-style: "settled already" - awaiting it still goes through __await__, checkpoints included; reading the
    # result on the side is not awaiting)
    def done(self):
        return True

    def result(self):
        CTX.foreign.append(f"result() of awaitable {self.tag!r} was read instead of awaiting it")
        return ("not what awaiting gives", self.tag)

    def __await__(self):
        self.awaits += 1
        if self.awaits > 1:
            CTX.foreign.append(f"awaitable {self.tag!r} restarted: __await__ called {self.awaits} times for one await")
        if self.susp:
            yield from Suspend(self.tag, self.susp).__await__()
        if self.raises is not None:
            raise self.raises
        return self.result


class FutureLikeIterable(FutureLike):
    """Like asyncio.Future: ``__iter__`` is an alias of ``__await__`` for legacy ``yield from``."""

    __iter__ = FutureLike.__await__


class _FLSource:
    def __init__(self, tag, n, susp):
        self.tag, self.n, self.susp, self.i, self.closed = tag, n, susp, 0, 0

    def __aiter__(self):
        return self

    def __anext__(self):
        self.i += 1
        if self.i > self.n:
            return FutureLike((self.tag, "end", self.i), self.susp, raises=StopAsyncIteration())
        return FutureLike((self.tag, self.i), self.susp, result=(self.tag, self.i))

    def aclose(self):
        self.closed += 1
        return FutureLike((self.tag, "aclose"), self.susp)


async def sc_future_like(susp):
    """Every slot of the user protocols filled with an awaitable object that is not a coroutine."""
    out = []
    src = _FLSource("a", 1, susp)
    out.append(await A.anext(src))
    out.append(await A.anext(src, "default"))
    out.append(await A.anext(_FLSource("b", 1, susp), "default"))
    try:
        await A.anext(_FLSource("c", 0, susp))
    except StopAsyncIteration:
        out.append("stop")
    out.append(await A.list(A.zip(_FLSource("d", 2, susp), _FLSource("e", 2, susp), strict=True)))
    for first, second in ((0, 1), (1, 0), (2, 1)):
        try:
            out.append(await A.list(A.zip(_FLSource("f", first, susp), _FLSource("g", second, susp), strict=True)))
        except ValueError as exc:
            out.append(str(exc))
    try:
        out.append(await A.list(A.zip([], _FLSource("h", 1, susp), strict=True)))
    except ValueError as exc:
        out.append(str(exc))
    out.append(await A.list(A.map(lambda x: FutureLike(("fn", x), susp, result=("m", x)), _FLSource("i", 2, susp))))
    out.append(await A.list(A.filter(lambda x: FutureLike(("pred", x), susp, result=x[1] % 2), _FLSource("j", 3, susp))))
    out.append(await A.reduce(lambda x, y: FutureLike(("red", x, y), susp, result=(x, y)), _FLSource("k", 3, susp)))
    out.append(await A.list(A.chain(_FLSource("l", 1, susp), _FLSource("m", 1, susp))))
    out.append(await A.list(A.islice(A.cycle(_FLSource("n", 2, susp)), 5)))
    out.append(await A.list(A.takewhile(lambda x: FutureLike(("tw", x), susp, result=x[1] < 2), _FLSource("o", 3, susp))))
    out.append([(k, await A.list(g)) async for k, g in
                A.groupby(_FLSource("p", 4, susp), key=lambda x: FutureLike(("key", x), susp, result=x[1] // 2))])
    t1, t2 = A.tee(_FLSource("q", 2, susp), 2)
    out.append((await A.list(t1), await A.list(t2)))
    async with A.scoped_iter(_FLSource("r", 3, susp)) as it:
        out.append(await A.anext(it))
        out.append(await A.anext(A.borrow(it), "default"))
    state = {"n": 0}

    def feed():
        state["n"] += 1
        return FutureLike(("feed", state["n"]), susp, result=state["n"])

    out.append([x async for x in A.iter(feed, 3)])
    out.append(await A.min(_FLSource("s", 3, susp), key=lambda x: FutureLike(("mk", x), susp, result=-x[1])))
    out.append(await A.sorted(_FLSource("t", 3, susp), key=lambda x: FutureLike(("sk", x), susp, result=-x[1])))
    out.append(await A.list(A.accumulate(_FLSource("u", 3, susp), lambda x, y: FutureLike(("acc", y), susp, result=y))))
    out.append(await A.list(A.starmap(lambda *a: FutureLike(("sm", a), susp, result=a), A.zip(_FLSource("v", 2, susp)))))

    # context managers, callbacks, caches
    log = []

    class CM:
        def __init__(self, n):
            self.n = n

        def __aenter__(self):
            log.append(("enter", self.n))
            return FutureLike(("enter", self.n), susp, result=self.n)

        def __aexit__(self, et, ev, tb):
            log.append(("exit", self.n))
            return FutureLike(("exit", self.n), susp, result=False)

    class Thing:
        def aclose(self):
            log.append("aclose")
            return FutureLike("thing-aclose", susp)

    async with A.ExitStack() as stack:
        out.append(await stack.enter_context(CM(1)))
        stack.push(CM(2))
        stack.callback(lambda x: FutureLike(("cb", x), susp, result=log.append(("cb", x))), 7)
        stack.push(lambda et, ev, tb: FutureLike("pushed-exit", susp, result=False))
    async with A.closing(Thing()):
        pass

    class Deco(A.ContextDecorator):
        def __aenter__(self):
            return FutureLike("deco-enter", susp, result=self)

        def __aexit__(self, *exc):
            return FutureLike("deco-exit", susp, result=False)

    @Deco()
    async def decorated():
        return "decorated"

    out.append(await decorated())

    @A.lru_cache(maxsize=2)
    def cached(x):
        return FutureLike(("cached", x), susp, result=("r", x))

    out.append([await cached(1), await cached(1), await cached(2)])

    class K:
        @A.cached_property
        async def p(self):  # the getter must be a coroutine function; what it awaits need not be
            return await FutureLike("getter", susp, result="value")

    k = K()
    out.append((await k.p, await k.p))

    class FLLock:
        def __aenter__(self):
            return FutureLike("lock-enter", susp)

        def __aexit__(self, *exc):
            return FutureLike("lock-exit", susp, result=False)

    class K2:
        @A.cached_property(FLLock)
        async def p(self):
            return await FutureLike("getter2", susp, result="value2")

    k2 = K2()
    out.append((await k2.p, await k2.p))
    t3, t4 = A.tee(_FLSource("w", 2, susp), 2, lock=FLLock())
    out.append((await A.list(t3), await A.list(t4)))

    # helpers
    out.append([x async for x in A.await_each([FutureLike(("ae", i), susp, result=i) for i in range(3)])])
    out.append([x async for x in A.any_iter(FutureLike("outer", susp, result=[FutureLike(("it", i), susp, result=i) for i in range(2)]))])
    out.append([x async for x in A.any_iter(FutureLikeIterable("outer-fut", susp, result=[FutureLikeIterable(("itf", i), susp, result=i) for i in range(2)]))])
    out.append(await A.apply(lambda a, b: (a, b), FutureLike("ap1", susp, result=1), b=FutureLikeIterable("ap2", susp, result=2)))
    out.append(await A.sync(lambda x: FutureLike(("sync", x), susp, result=x + 1))(4))
    return out, log


CATALOGUE = {"contextmanager_left_by_generatorexit": sc_cm_generatorexit, "future_like_awaitables": sc_future_like, "lru_cache": sc_lru, "cache": sc_cache, "cached_property_lock": sc_cached_property,
             "cached_property": sc_cached_property_nolock, "contextmanager": sc_contextmanager,
             "ContextDecorator": sc_context_decorator, "ExitStack": sc_exitstack, "closing_nullcontext": sc_closing_nullcontext,
             "tee_lock": sc_tee_lock, "tee": sc_tee_nolock, "groupby": sc_groupby, "borrow_scoped_iter": sc_borrow_scoped,
             "await_each": sc_await_each, "any_iter": sc_any_iter, "apply_sync": sc_apply_sync, "anext_iter": sc_anext_iter}


def _ensure_monitor(stats):
    if _MONITORED["n"] is None:
        _MONITORED["n"] = install_asyncio_call_monitor()
    stats["asyncstdlib_code_objects_monitored"] = max(stats["asyncstdlib_code_objects_monitored"], _MONITORED["n"])


def _drain_asyncio(viols, where):
    if ASYNCIO_CALLS:
        viols.append({"key": "calls-into-asyncio", "msg": f"{where}: asyncstdlib code called {sorted(set(ASYNCIO_CALLS))}"})
        ASYNCIO_CALLS.clear()


def run_catalogue(case, stats):
    _ensure_monitor(stats)
    name, susp = case["name"], case["susp"]
    viols, sigs = [], []
    CTX.reset()
    base = drive(CATALOGUE[name](susp))
    n = CTX.suspensions
    evals = 1
    stats["catalogue_runs"] += 1
    stats["suspensions_checked"] += n
    if CTX.foreign:
        viols.append({"key": f"{name}/foreign-suspension", "msg": f"{name} susp={susp}: {CTX.foreign[0]}"})
    sigs.append((name, susp, None))
    if n == 0:
        viols.append({"key": "HARNESS/no-suspension", "msg": f"catalogue scenario {name} never suspended"})
    for i in range(1, n + 1):
        CTX.reset()
        try:
            res = drive(CATALOGUE[name](susp), poke_at=i)
        except BaseException as exc:  # noqa: BLE001
            res = ("raised", type(exc).__name__, str(exc)[:80])
        evals += 1
        stats["poke_runs"] += 1
        stats["pokes_absorbed"] += CTX.poke_absorbed
        sigs.append((name, susp, i))
        if CTX.foreign:
            viols.append({"key": f"{name}/poke-not-transparent", "msg": f"{name} susp={susp} poke@{i}: {CTX.foreign[0]}"})
        elif res != base:
            viols.append({"key": f"{name}/poke-changes-result", "msg": f"{name} susp={susp} poke@{i}: {res} vs {base}"[:600]})
    _drain_asyncio(viols, name)
    return {"violations": viols, "evals": evals, "sigs": sigs}


def run_catalogue_sync(case, stats):
    _ensure_monitor(stats)
    name = case["name"]
    CTX.reset()
    viols = []
    run_sync(CATALOGUE[name](0))
    stats["all_sync_runs"] += 1
    if CTX.foreign or CTX.suspensions:
        viols.append({"key": f"{name}/suspends-with-sync-arguments",
                      "msg": f"{name}: {CTX.foreign[:1]} suspensions={CTX.suspensions}"})
    _drain_asyncio(viols, name)
    return {"violations": viols, "evals": 1, "sigs": [(name, "sync")]}


def run_spec(case, stats):
    _ensure_monitor(stats)
    spec = case["spec"]
    tool = spec["tool"]
    nfn = len(spec.get("fns", []))
    kw = dict(flavours=case["flav"], fn_flavours=[case["fnfl"]] * nfn, susp=case["susp"], fn_susp=case["fn_susp"],
              steps=spec.get("steps"), log=False)
    base = run_async_side(spec, **kw)
    viols, sigs = [], []
    evals = 1
    stats["spec_runs"] += 1
    stats["suspensions_checked"] += base.suspensions
    if base.foreign:
        viols.append({"key": f"{tool}/foreign-suspension", "msg": f"{tool} {spec['params']} srcs={spec['srcs']}: {base.foreign[0]}"})
    if base.suspensions:
        sigs.append((spec, case["susp"], case["fn_susp"], None))
    # pokes at (up to 12) suspension positions
    n = base.suspensions
    positions = range(1, n + 1) if n <= 12 else sorted(random.Random(n).sample(range(1, n + 1), 12))
    for i in positions:
        side = run_async_side(spec, poke_at=i, **kw)
        evals += 1
        stats["poke_runs"] += 1
        stats["pokes_absorbed"] += CTX.poke_absorbed
        sigs.append((spec, case["susp"], case["fn_susp"], i))
        if side.foreign:
            viols.append({"key": f"{tool}/poke-not-transparent", "msg": f"{tool} {spec['params']} poke@{i}: {side.foreign[0]}"})
        elif (side.out, side.term) != (base.out, base.term):
            viols.append({"key": f"{tool}/poke-changes-result",
                          "msg": f"{tool} {spec['params']} srcs={spec['srcs']} poke@{i}: {side.term} vs {base.term}"})
    # all-synchronous arguments: no suspension at all
    sync_side = run_async_side(spec, flavours=["list"] * len(spec["srcs"]), fn_flavours=["def"] * nfn, steps=spec.get("steps"),
                               log=False, outer_flavour="list")
    evals += 1
    stats["all_sync_runs"] += 1
    sigs.append((spec, "sync"))
    if sync_side.foreign or sync_side.suspensions:
        viols.append({"key": f"{tool}/suspends-with-sync-arguments",
                      "msg": f"{tool} {spec['params']}: {sync_side.foreign[:1]} suspensions={sync_side.suspensions}"})
    _drain_asyncio(viols, tool)
    return {"violations": viols, "evals": evals, "sigs": sigs}


FRESH = r'''
import sys
sys.path.insert(0, sys.argv[1])
import asyncio
import asyncstdlib as a
assert asyncio.events._get_running_loop() is None, "running loop after import"
def run(coro):
    try:
        coro.send(None)
    except StopIteration as e:
        return e.value
    raise SystemExit("suspended without any user awaitable")
async def main():
    out = await a.list(a.map(lambda x: x[0] + x[1], a.zip([1, 2], [3, 4])))
    async with a.ExitStack() as s:
        s.callback(print, end="")
    @a.lru_cache
    async def f(x):
        return x
    return out, await f(1), await a.sum(a.islice(a.cycle([1]), 3))
print(run(main()))
assert asyncio.events._get_running_loop() is None, "running loop after use"
policy = asyncio.events._event_loop_policy
loop = None if policy is None else getattr(policy._local, "_loop", None)
assert loop is None, "an event loop was created"
print("OK")
'''


def run_fresh(stats):
    repo = os.environ.get("VERIF_REPO", "/repo")
    viols = []
    try:
        proc = subprocess.run([sys.executable, "-c", FRESH, repo], capture_output=True, text=True, timeout=120)
        ok = proc.returncode == 0 and proc.stdout.strip().endswith("OK")
        if not ok:
            viols.append({"key": "fresh-interpreter/asyncio-loop-touched", "msg": (proc.stdout + proc.stderr)[-600:]})
    except subprocess.TimeoutExpired:
        raise
    stats["fresh_interpreter_runs"] += 1
    return {"violations": viols, "evals": 1, "sigs": [("fresh",)]}


def run_namespace(stats):
    """The loaded asyncstdlib modules must not hold anything of asyncio but iscoroutinefunction."""
    import types
    viols = []
    n = 0
    for name, mod in sorted(sys.modules.items()):
        if not (name == "asyncstdlib" or name.startswith("asyncstdlib.")) or mod is None:
            continue
        for attr, val in vars(mod).items():
            n += 1
            if isinstance(val, types.ModuleType):
                continue  # `import asyncio` by itself says nothing about use; calls are watched by the CALL monitor
            modname = getattr(val, "__module__", None) or ""
            if not isinstance(modname, str):
                continue
            if (modname == "asyncio" or modname.startswith("asyncio.") or modname == "_asyncio") and attr != "iscoroutinefunction" \
                    and getattr(val, "__name__", "") != "iscoroutinefunction":
                viols.append({"key": "imports-from-asyncio", "msg": f"{name}.{attr} is {modname}.{getattr(val, '__name__', val)!s}: "
                                                                     f"asyncio is used for more than coroutine-function detection"})
    stats["module_globals_inspected"] += n
    return {"violations": viols, "evals": 1, "sigs": [("namespace",)]}


def run_large_sync(case, stats):
    """Large all-synchronous inputs: still no suspension at all (and no call into asyncio)."""
    _ensure_monitor(stats)
    n, tool = case["n"], case["tool"]
    data = range(n)
    awaited = []
    if case.get("payload") == "jobs":
        # the ITEMS happen to be awaitable (prioritised jobs, futures kept in a collection): they are payload, the
        # user did not hand them over as awaitables - no tool has any business awaiting them
        class Job(int):
            def __await__(self):
                awaited.append(int(self))
                yield ("job-token", int(self))
                return self

        data = [Job(i) for i in range(n)]

    async def main():
        if tool == "map_later_payload":
            # a plain function whose FIRST result is a plain value (so it is a synchronous callable) and whose later
            # results are items that happen to be awaitable: results like any other, handed on as they are
            return len(await A.list(A.map(lambda x, y: 0 if int(x) == 0 else x, data, data)))
        if tool == "reduce_later_payload":
            return int(await A.reduce(lambda a, b: 0 if int(b) == 0 else b, data, 0))
        if tool == "accumulate_later_payload":
            return len(await A.list(A.accumulate(data, lambda a, b: 0 if int(b) <= 1 else b, initial=0)))
        if tool == "list":
            return len(await A.list(data))
        if tool == "sum":
            return await A.sum(data)
        if tool == "max":
            return await A.max(data, key=lambda x: -x)
        if tool == "map":
            return len(await A.list(A.map(lambda x, y: x + y, data, data)))
        if tool == "zip":
            return len(await A.list(A.zip(data, data, strict=True)))
        if tool == "reduce":
            return await A.reduce(lambda a, b: int(b), data)  # (int(): the result is not one of the items)
        if tool == "accumulate":
            return await A.max(A.accumulate(data))
        if tool == "islice":
            return await A.list(A.islice(data, n - 2, None))
        if tool == "chain":
            return len(await A.list(A.chain(data, data)))
        if tool == "nlargest":
            return await A.nlargest(data, 3)
        if tool == "filter":
            return len(await A.list(A.filter(lambda x: x % 2, data)))
        if tool == "enumerate":
            return len(await A.list(A.enumerate(data)))
        if tool == "batched":
            return len(await A.list(A.batched(data, 7)))
        if tool == "takewhile":
            return len(await A.list(A.takewhile(lambda x: True, data)))
        if tool == "pairwise":
            return len(await A.list(A.pairwise(data)))
        if tool == "zip_longest":
            return len(await A.list(A.zip_longest(data, range(3))))
        if tool == "merge":
            return len(await A.list(A.merge(data, data)))
        if tool == "tee":
            a_, b_ = A.tee(data)
            return len(await A.list(A.zip(a_, b_)))
        if tool == "groupby":
            return len([k async for k, _ in A.groupby(data, key=lambda x: x // 3)])
        if tool == "sorted_key":
            return (await A.sorted(data, key=lambda x: -x))[0]
        if tool == "any_iter":
            return len([x async for x in A.any_iter(data)])
        if tool in ("sorted_async_src", "min_async_src"):
            async def agen():  # an asynchronous source that never suspends
                for x in data:
                    yield x
            if tool == "min_async_src":
                return await A.min(agen())
            return (await A.sorted(agen(), reverse=True))[0]
        if tool == "sorted_reverse":
            return (await A.sorted(iter(data), reverse=True))[0]
        if tool == "cycle":
            return len(await A.list(A.islice(A.cycle(range(3)), n)))
        if tool == "compress":
            return len(await A.list(A.compress(data, data)))
        if tool == "starmap":
            return len(await A.list(A.starmap(lambda a, b: int(a), zip(data, data))))
        if tool == "dict":
            return len(await A.dict(zip(data, data)))
        if tool == "set":
            return len(await A.set(data))
        if tool == "all":
            return await A.all(data[1:])  # (every item but 0 is true: the whole input is tested)
        if tool == "any":
            return await A.any(x for x in data if not x)  # (nothing true among them: the whole input is tested)
        if tool == "min":
            return await A.min(data, default=None)
        if tool == "tuple":
            return len(await A.tuple(data))
        if tool == "sorted":
            return len(await A.sorted(data))
        if tool == "nsmallest":
            return await A.nsmallest(data, 3)
        if tool == "dropwhile":
            return len(await A.list(A.dropwhile(lambda x: x < 2, data)))
        if tool == "filterfalse":
            return len(await A.list(A.filterfalse(lambda x: x % 2, data)))
        if tool == "filter_none":
            return len(await A.list(A.filter(None, data)))
        if tool == "chain_from_iterable":
            return len(await A.list(A.chain.from_iterable([data, data])))
        if tool == "iter_sentinel":
            feed = iter(data)
            return len(await A.list(A.iter(lambda: next(feed, None), None)))
        if tool == "scoped_iter":
            async with A.scoped_iter(data) as it:
                return len(await A.list(it))
        if tool == "borrow":
            return len(await A.list(A.borrow(A.iter(data))))
        if tool == "anext_default":
            it = A.iter(data)
            k = 0
            while (await A.anext(it, None)) is not None:
                k += 1
            return k
        if tool == "map_async_src":
            async def agen2():  # an asynchronous source that never suspends
                for x in data:
                    yield x
            return len(await A.list(A.map(lambda x: int(x), agen2())))
        raise ValueError(tool)

    CTX.reset()
    viols = []

    def once():
        coro = main()
        try:
            return coro.send(None)
        except StopIteration:
            return StopIteration
        finally:
            try:
                coro.close()
            except RuntimeError:
                pass  # (a suspended run cannot always be torn down cleanly; that it suspended is what gets reported)

    if case.get("inside_asyncio"):
        import asyncio

        async def host():
            return once()

        surfaced = asyncio.run(host())
        stats["large_sync_runs_inside_a_running_asyncio_loop"] += 1
    else:
        surfaced = once()
    if surfaced is not StopIteration:
        viols.append({"key": f"{tool}/suspends-with-sync-arguments",
                      "msg": f"{tool} over a synchronous input of {n} items suspended, yielding {surfaced!r} to the loop"
                             + (" (driven by hand inside a running asyncio loop)" if case.get("inside_asyncio") else "")})
    if awaited:
        viols.append({"key": f"{tool}/awaits-payload-items",
                      "msg": f"{tool} over items that happen to be awaitable: the library awaited items {awaited[:5]}"})
    if case.get("payload") == "jobs":
        stats["awaitable_payload_runs"] += 1
    stats["large_sync_runs"] += 1
    stats["large_sync_items"] += n
    _drain_asyncio(viols, f"{tool} n={n}")
    return {"violations": viols, "evals": 1, "sigs": [("large", tool, n)]}


CLOSE_TOOLS = ["compress", "islice", "islice_from_0", "map", "zip", "filter", "enumerate", "starmap", "takewhile", "pairwise",
               "batched", "accumulate", "chain", "zip_longest", "merge", "dropwhile", "filterfalse", "cycle", "groupby",
               "tee", "any_iter", "zip_strict", "chain_from_iterable"]


def run_close_tokens(case, stats):
    """A tool is left early (aclose after k items) over class-based sources whose OWN ``aclose`` suspends: every
    such clean-up awaitable runs under the loop - its token reaches the loop, it is resumed with the loop's reply and
    completes before the tool's ``aclose()`` returns; none is started and then killed by a garbage-collected helper."""
    import gc
    import sys
    _ensure_monitor(stats)
    CTX.reset()
    tool, k = case["tool"], case["k"]
    events = []

    class Src:
        def __init__(self, name):
            self.name, self.i, self.started, self.finished, self.aborted = name, 0, 0, 0, 0

        def __bool__(self):
            return False

        def __aiter__(self):
            return self

        async def __anext__(self):
            await Suspend(("src", self.name), 1)
            self.i += 1
            if self.i > 5:
                raise StopAsyncIteration
            return self.i

        async def aclose(self):
            self.started += 1
            try:
                await Suspend(("close", self.name), 1)
            except GeneratorExit:
                self.aborted += 1
                raise
            self.finished += 1

    a, b = Src("A"), Src("B")
    unraisable = []
    old_hook = sys.unraisablehook
    sys.unraisablehook = lambda u: unraisable.append(f"{type(u.exc_value).__name__}: {u.exc_value}")

    async def main():
        it = {"compress": lambda: A.compress(a, b), "islice": lambda: A.islice(a, 1, 5), "islice_from_0": lambda: A.islice(a, 4),
              "map": lambda: A.map(lambda x, y: x, a, b), "zip": lambda: A.zip(a, b), "zip_strict": lambda: A.zip(a, b, strict=True),
              "filter": lambda: A.filter(lambda x: True, a), "enumerate": lambda: A.enumerate(a),
              "starmap": lambda: A.starmap(lambda *x: x, A.zip(a, b)), "takewhile": lambda: A.takewhile(lambda x: True, a),
              "pairwise": lambda: A.pairwise(a), "batched": lambda: A.batched(a, 2), "accumulate": lambda: A.accumulate(a),
              "chain": lambda: A.chain(a, b), "chain_from_iterable": lambda: A.chain.from_iterable([a, b]),
              "zip_longest": lambda: A.zip_longest(a, b), "merge": lambda: A.merge(a, b),
              "dropwhile": lambda: A.dropwhile(lambda x: False, a), "filterfalse": lambda: A.filterfalse(lambda x: False, a),
              "cycle": lambda: A.cycle(a), "groupby": lambda: A.groupby(a), "tee": lambda: A.tee(a, 1)[0],
              "any_iter": lambda: A.any_iter(a)}[tool]()
        for _ in range(k):
            await it.__anext__()
        await it.aclose()
        del it
        events.append(("returned", a.started, a.finished, b.started, b.finished))

    viols = []
    # an event loop that does NOT finalise abandoned async generators on the library's behalf (asyncio and trio do,
    # a minimal loop need not): whatever the library leaves to the garbage collector is closed by the interpreter
    # itself, which cannot run an awaiting ``finally`` block
    old_ag_hooks = sys.get_asyncgen_hooks()
    if case.get("hooks") == "none":
        sys.set_asyncgen_hooks(None, None)
    try:
        drive(main())
        gc.collect()
        if case.get("hooks") != "none":
            run_finalizers()
        gc.collect()
    except BaseException as exc:  # noqa: BLE001
        viols.append({"key": f"{tool}/early-close-raised", "msg": f"{tool} closed after {k} items: {type(exc).__name__}: {exc}"})
    finally:
        sys.unraisablehook = old_hook
        sys.set_asyncgen_hooks(*old_ag_hooks)
    head = f"{tool} left after {k} items over sources whose aclose suspends"
    for src in (a, b):
        if src.aborted:
            viols.append({"key": f"{tool}/cleanup-awaitable-killed",
                          "msg": f"{head}: {src.name}.aclose() was started {src.started}x and {src.aborted}x killed by a "
                                 f"GeneratorExit at its own await instead of being resumed by the loop"})
    if events and (events[0][1] != events[0][2] or events[0][3] != events[0][4]):
        viols.append({"key": f"{tool}/cleanup-not-complete-when-aclose-returned",
                      "msg": f"{head}: when aclose() returned, clean-ups started/finished were A {events[0][1]}/{events[0][2]}, "
                             f"B {events[0][3]}/{events[0][4]}"})
    if unraisable:
        viols.append({"key": f"{tool}/unraisable-error-during-cleanup", "msg": f"{head}: {unraisable[0]}"})
    if CTX.foreign:
        viols.append({"key": f"{tool}/foreign-suspension", "msg": f"{head}: {CTX.foreign[0]}"})
    stats["early_closes_over_sources_with_suspending_aclose"] += 1
    _drain_asyncio(viols, f"{tool} early close")
    return {"violations": viols, "evals": 1, "sigs": [("close-tokens", tool, k, case.get("hooks"))]}


def run_pending_read_close(case, stats):
    """Two tasks share a borrowed / scoped iterator; one closes the handle (or leaves the scope) while the other's
    read is suspended inside the source.  Whatever the library does about it, it may only ever suspend on the
    source's own awaitables (scenario and execution of C07, judged here on foreign suspensions only)."""
    from . import C07
    _ensure_monitor(stats)
    res = C07.run_conc_close(case["c07"], Counter())
    viols = [{"key": "close-during-pending-read/foreign-suspension", "msg": v["msg"]}
             for v in res["violations"] if v["key"].endswith("foreign-suspension")]
    stats["closes_during_a_pending_read"] += 1
    _drain_asyncio(viols, "close-during-pending-read")
    return {"violations": viols, "evals": 1, "sigs": [("pending-read-close", str(case["c07"]))]}


def run_generator_callables(case, stats):
    """The callable is a plain GENERATOR FUNCTION (``def`` with ``yield``): a synchronous callable whose result - a lazy
    sequence - is a value like any other.  Nothing is awaited, nothing of what the generators would yield reaches the loop,
    and the generators come out unstarted."""
    import inspect
    _ensure_monitor(stats)
    CTX.reset()
    tool = case["tool"]

    def pieces(x, *more):
        yield ("piece-token", x)
        yield ("piece-token", x, more)
        return "done"

    data = [1, 2, 3]

    async def main():
        if tool == "map":
            return await A.list(A.map(pieces, data))
        if tool == "map2":
            return await A.list(A.map(pieces, data, data))
        if tool == "starmap":
            return await A.list(A.starmap(pieces, [(1, 2), (3, 4)]))
        if tool == "filter":
            return await A.list(A.filter(pieces, data))  # (a generator object is truthy: everything stays)
        if tool == "takewhile":
            return await A.list(A.takewhile(pieces, data))
        if tool == "accumulate":
            return await A.list(A.accumulate(data, pieces))
        if tool == "reduce":
            return [await A.reduce(pieces, data)]
        if tool == "iter":
            made = []

            def make():
                made.append(1)
                if len(made) > 2:
                    return None
                return pieces(len(made))
            return await A.list(A.iter(make, None))
        if tool == "exitstack":
            out = []

            def exit_gen(et, ev, tb):
                out.append("called")
                yield "exit-token"
            async with A.ExitStack() as stack:
                stack.push(exit_gen)
                stack.callback(pieces, 1)
            return out
        if tool == "sync":
            return [await A.sync(pieces)(1)]
        if tool == "zip_longest_payload_fill":
            # the FILL VALUE is an awaitable object used as data; sources differing in length by several items, so that
            # padding goes on for several rounds
            from ..tools import AwaitablePayload
            fill = AwaitablePayload("fill")
            rows = await A.list(A.zip_longest([1, 2, 3, 4], [10], (), fillvalue=fill))
            if [r[2] for r in rows] != [fill] * 4 or any(x is not fill for x in [rows[1][1], rows[2][1], rows[3][1]]):
                raise AssertionError(f"zip_longest did not pad with the fill value itself: {rows!r}")
            return None
        if tool in ("enter_payload", "enter_generator"):
            # a purely synchronous context manager whose __enter__ value is an awaitable object used as data (a job
            # handle) / a generator: handed on as it is
            from ..tools import AwaitablePayload
            value = AwaitablePayload("enter-value") if tool == "enter_payload" else pieces(1)

            class SyncManager:
                def __enter__(self):
                    return value

                def __exit__(self, *exc):
                    return False

            async with A.ExitStack() as stack:
                got = await stack.enter_context(SyncManager())
            if got is not value:
                raise AssertionError(f"enter_context handed on {got!r} instead of the manager's enter value")
            return None
        raise ValueError(tool)

    viols = []
    coro = main()
    try:
        surfaced = coro.send(None)
    except StopIteration as stop:
        surfaced, result = StopIteration, stop.value
    except BaseException as exc:  # noqa: BLE001
        surfaced, result = StopIteration, None
        viols.append({"key": f"{tool}/generator-function-callable-raised", "msg": f"{tool} with a generator function as callable: {exc!r}"})
    if CTX.foreign:
        viols.append({"key": f"{tool}/awaits-payload", "msg": CTX.foreign[0]})
    if surfaced is not StopIteration:
        coro.close()
        viols.append({"key": f"{tool}/suspends-with-sync-arguments",
                      "msg": f"{tool} with a plain generator function as callable suspended, yielding {surfaced!r} to the loop"})
    elif tool in ("filter", "takewhile"):
        if result != data:  # (a generator object is truthy: every item passes)
            viols.append({"key": f"{tool}/generator-result-not-handed-on-untouched",
                          "msg": f"{tool} with a plain generator function as predicate gave {result!r}, expected {data}"})
    elif result is not None and tool != "exitstack":
        gens = [g for g in result if not isinstance(g, int)]
        bad = [g for g in gens if not inspect.isgenerator(g) or inspect.getgeneratorstate(g) != inspect.GEN_CREATED]
        if bad or not gens:
            viols.append({"key": f"{tool}/generator-result-not-handed-on-untouched",
                          "msg": f"{tool} with a plain generator function as callable gave {result!r}"[:400]})
    stats["generator_function_callable_runs"] += 1
    _drain_asyncio(viols, f"{tool} with a generator function")
    return {"violations": viols, "evals": 1, "sigs": [("genfunc", tool)]}


def run_awaitable_comparison(case, stats):
    """Comparisons of user objects (``==``, ``<``) that answer with an object which happens to be awaitable (a deferred
    expression, a handle): the answer's TRUTH VALUE is what a tool needs - it is not the user's awaitable to run."""
    from ..tools import AwaitablePayload
    _ensure_monitor(stats)
    CTX.reset()
    tool = case["tool"]

    class Deferred(AwaitablePayload):
        def __init__(self, k, truth):
            super().__init__(k)
            self.truth = truth

        def __bool__(self):
            return self.truth

    class Key:
        __hash__ = None

        def __init__(self, v):
            self.v = v

        def __eq__(self, other):
            return Deferred(("eq", self.v), isinstance(other, Key) and self.v == other.v)

        def __ne__(self, other):
            return Deferred(("ne", self.v), not (isinstance(other, Key) and self.v == other.v))

        def __lt__(self, other):
            return Deferred(("lt", self.v), self.v < other.v)

        def __gt__(self, other):
            return Deferred(("gt", self.v), self.v > other.v)

    async def main():
        if tool == "iter_sentinel":
            feed = iter([Key(1), Key(2), Key(3), Key(0)])
            got = await A.list(A.iter(lambda: next(feed), Key(3)))
            return [k.v for k in got] == [1, 2]
        if tool in ("groupby", "groupby_nokey"):
            data = [Key(1), Key(1), Key(2), Key(2), Key(1)]
            gb = A.groupby(data) if tool == "groupby_nokey" else A.groupby(data, key=lambda k: Key(k.v))
            sizes = []
            async for _, group in gb:
                sizes.append(len(await A.list(group)))
            return sizes == [2, 2, 1]
        if tool in ("sum_expressions", "sum_expressions_start", "accumulate_expressions", "accumulate_expressions_initial"):
            # lazy expression objects: adding two of them gives another one - a value that happens to be awaitable
            class Expr(AwaitablePayload):
                def __add__(self, other):
                    return Expr(("sum", self.k, getattr(other, "k", other)))

                __radd__ = __add__

            if tool == "accumulate_expressions":
                sums = await A.list(A.accumulate([Expr(1), Expr(2), Expr(3)]))
                return [type(x) for x in sums] == [Expr] * 3 and sums[-1].k == ("sum", ("sum", 1, 2), 3)
            if tool == "accumulate_expressions_initial":
                sums = await A.list(A.accumulate([1, 2], initial=Expr(0)))
                return [type(x) for x in sums] == [Expr] * 3 and sums[-1].k == ("sum", ("sum", 0, 1), 2)
            if tool == "sum_expressions":
                total = await A.sum([Expr(1), Expr(2), Expr(3)])
                return isinstance(total, Expr) and total.k == ("sum", ("sum", ("sum", 1, 0), 2), 3)
            total = await A.sum([1, 2], Expr(0))
            return isinstance(total, Expr) and total.k == ("sum", ("sum", 0, 1), 2)
        if tool.endswith("class_with_async_call"):
            # the callable is a CLASS whose instances have ``async def __call__`` (a job type): calling the class gives an
            # instance - a plain value, handed on as it is; nobody asked for the job to be run
            class JobType:
                def __init__(self, *args):
                    self.args = args

                async def __call__(self):
                    CTX.foreign.append("a job object created by the callable was run")

                def __lt__(self, other):
                    return self.args < other.args

            if tool == "map_class_with_async_call":
                jobs = await A.list(A.map(JobType, [1, 2, 3]))
                return [type(j) for j in jobs] == [JobType] * 3 and [j.args for j in jobs] == [(1,), (2,), (3,)]
            if tool == "starmap_class_with_async_call":
                jobs = await A.list(A.starmap(JobType, [(1, 2), (3, 4)]))
                return [j.args for j in jobs] == [(1, 2), (3, 4)]
            return (await A.sorted([3, 1, 2], key=JobType)) == [1, 2, 3]
        if tool == "max_key":
            return (await A.max([1, 3, 2], key=Key)) == 3
        if tool == "sorted_key":
            return (await A.sorted([2, 3, 1], key=Key)) == [1, 2, 3]
        raise ValueError(tool)

    viols = []
    coro = main()
    try:
        ok = run_sync(coro)
    except BaseException as exc:  # noqa: BLE001
        ok = f"{type(exc).__name__}: {exc}"
    if ok is not True:
        viols.append({"key": f"{tool}/result-with-awaitable-comparison-answers", "msg": f"{tool}: gave {ok!r}"})
    if CTX.foreign or CTX.suspensions:
        viols.append({"key": f"{tool}/suspends-with-sync-arguments",
                      "msg": f"{tool} over keys whose comparisons answer with awaitable objects: {CTX.foreign[:2]} suspensions={CTX.suspensions}"})
    stats["awaitable_comparison_runs"] += 1
    _drain_asyncio(viols, f"awaitable-comparison {tool}")
    return {"violations": viols, "evals": 1, "sigs": [("awaitable-comparison", tool)]}


MAPPING_TOOLS = ("dict", "list", "tuple", "set", "sorted", "min", "max", "enumerate", "zip", "any", "all", "map_str", "tee",
                 "batched", "chain", "islice", "any_iter", "sum_keys", "reduce_first", "accumulate")


class _Registry:
    """A mapping that is not a dict: ``keys()`` and ``__getitem__`` (a name -> job registry), iterable over its keys."""

    def __init__(self, data):
        self._data = data

    def keys(self):
        return self._data.keys()

    def __getitem__(self, key):
        return self._data[key]

    def __iter__(self):
        return iter(self._data)

    def __len__(self):
        return len(self._data)


def run_mapping_argument(case, stats):
    """A synchronous MAPPING (a name -> job registry whose VALUES happen to be awaitable) handed to a tool where a
    synchronous iterable goes: whatever the tool makes of it - its keys, an error - the call has synchronous arguments
    only, so nothing reaches the loop and none of the stored jobs is awaited."""
    from ..tools import AwaitablePayload
    _ensure_monitor(stats)
    CTX.reset()
    tool, shape = case["tool"], case["shape"]
    data = {} if shape == "empty" else {"k1": AwaitablePayload("job-1"), "k2": AwaitablePayload("job-2"), "k3": 3}
    if shape == "first_plain":
        data = {"k0": 0, **data}
    arg = _Registry(data) if shape == "mapping_class" else data

    async def main():
        if tool == "dict":
            return await A.dict(arg)
        if tool in ("list", "tuple", "set", "sorted", "min", "max", "any", "all"):
            return await getattr(A, tool)(arg)
        if tool == "enumerate":
            return await A.list(A.enumerate(arg))
        if tool == "zip":
            return await A.list(A.zip(arg, arg))
        if tool == "map_str":
            return await A.list(A.map(str, arg))
        if tool == "tee":
            return [await A.list(c) for c in A.tee(arg, 2)]
        if tool == "batched":
            return await A.list(A.batched(arg, 2))
        if tool == "chain":
            return await A.list(A.chain(arg, arg))
        if tool == "islice":
            return await A.list(A.islice(arg, 2))
        if tool == "any_iter":
            return await A.list(A.any_iter(arg))
        if tool == "sum_keys":
            return await A.sum(arg, "")
        if tool == "reduce_first":
            return await A.reduce(lambda a, b: a, arg)
        if tool == "accumulate":
            return await A.list(A.accumulate(arg, lambda a, b: b))
        raise ValueError(tool)

    viols = []
    coro = main()
    try:
        run_sync(coro)
    except BaseException as exc:  # noqa: BLE001 - (e.g. a mapping is not a sequence of pairs: an error, not a suspension)
        stats["mapping_arguments_refused"] += 1
        del exc
    stats["mapping_argument_runs"] += 1
    if CTX.foreign or CTX.suspensions:
        viols.append({"key": f"{tool}/suspends-with-sync-arguments",
                      "msg": f"{tool}({shape} mapping whose values are awaitable jobs): {CTX.foreign[:2]} suspensions={CTX.suspensions}"})
    _drain_asyncio(viols, f"mapping-argument {tool}")
    return {"violations": viols, "evals": 1, "sigs": [("mapping-argument", tool, shape)]}


def run_tee_pending_close(case, stats):
    """Two tasks share a tee over a suspending source; one closes the tee (aclose / leaving ``async with``) or a
    sibling child while the other's read through a child is suspended inside the source.  Whatever the library does
    about it (refuse, close what can be closed), it suspends on nothing but the source's and the lock's own awaitables -
    hand-driven, and hand-driven inside a running asyncio loop."""
    from ..loop import Driver
    from ..probes import SrcState, Plan, make_source
    _ensure_monitor(stats)
    viols = []

    def once():
        CTX.reset()
        st = SrcState(0, [Item(i, (0, i)) for i in range(4)], Plan(case["susp"]), log=False)
        src = make_source(st, case["flav"])
        lock = VLock("tee") if case["lock"] else None
        handle = A.tee(src, case["n"], lock=lock) if lock is not None else A.tee(src, case["n"])
        out = {}

        async def reader():
            try:
                async for _ in handle[0]:
                    pass
            except BaseException as exc:  # noqa: BLE001
                out["reader"] = repr(exc)

        async def closer():
            try:
                if case["via"] == "aclose":
                    await handle.aclose()
                elif case["via"] == "with":
                    async with handle:
                        pass
                elif case["via"] == "same_child":
                    await handle[0].aclose()
                else:
                    await handle[case["n"] - 1].aclose()
            except RuntimeError as exc:
                out["refused"] = str(exc)

        step = {"n": 0}

        def choose(runnable):
            step["n"] += 1
            if step["n"] <= case["close_at"]:
                return 0 if 0 in runnable else runnable[0]
            if step["n"] > case["close_at"] + 40 and step["n"] % 2:
                return 0 if 0 in runnable else runnable[0]
            return 1 if 1 in runnable else runnable[0]

        driver = Driver(choose)
        driver.spawn("reader", reader())
        driver.spawn("closer", closer())
        driver.run()
        return list(CTX.foreign), out, [t for t in driver.tasks if t.exc is not None and not isinstance(t.exc, RuntimeError)]

    for inside in (False, True):
        if inside:
            import asyncio

            async def host():
                return once()

            foreign, out, failed = asyncio.run(host())
        else:
            foreign, out, failed = once()
        where = " (driven by hand inside a running asyncio loop)" if inside else ""
        if foreign:
            viols.append({"key": "tee-close-during-pending-read/foreign-suspension", "msg": f"tee {case}{where}: {foreign[0]}"})
        for t in failed:
            viols.append({"key": "tee-close-during-pending-read/task-raised",
                          "msg": f"tee {case}{where}: task {t.name} ended with {t.exc!r}"})
        stats["tee_closes_during_a_pending_read"] += 1
    _drain_asyncio(viols, "tee-close-during-pending-read")
    return {"violations": viols, "evals": 2, "sigs": [("tee-pending-close", str(case))]}


def run_case(case, stats: Counter):
    kind = case["kind"]
    if kind == "generator-callable":
        return run_generator_callables(case, stats)
    if kind == "tee-pending-close":
        return run_tee_pending_close(case, stats)
    if kind == "mapping-argument":
        return run_mapping_argument(case, stats)
    if kind == "awaitable-comparison":
        return run_awaitable_comparison(case, stats)
    if kind == "pending-read-close":
        return run_pending_read_close(case, stats)
    if kind == "close-tokens":
        return run_close_tokens(case, stats)
    if kind == "fresh-interpreter":
        return run_fresh(stats)
    if kind == "namespace":
        return run_namespace(stats)
    if kind == "large-sync":
        return run_large_sync(case, stats)
    if kind == "catalogue":
        return run_catalogue(case, stats)
    if kind == "catalogue-sync":
        return run_catalogue_sync(case, stats)
    return run_spec(case, stats)


def finish(stats, tier):
    for need in ("spec_runs", "catalogue_runs", "poke_runs", "pokes_absorbed", "all_sync_runs", "fresh_interpreter_runs",
                 "suspensions_checked", "asyncstdlib_code_objects_monitored", "large_sync_runs", "module_globals_inspected",
                 "large_sync_runs_inside_a_running_asyncio_loop", "tee_closes_during_a_pending_read"):
        if not stats.get(need):
            return f"deciding counter {need} is zero"
    return None
