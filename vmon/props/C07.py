"""C07 — a borrowed iterator can never close its underlying iterator.
(also hosts the shared-iterator model used by C08)"""
from __future__ import annotations

import gc
import heapq
import itertools
import random
from collections import Counter

import asyncstdlib as A

from ..loop import run_finalizers, CTX, drive, Driver
from ..probes import JobItem, Item, SrcState, Plan, make_source

ID = "C07"
LEVEL = "exploration"
ANCHORS = ["asynctools.py", "_core.py"]
RULE = ("random operation histories (length <= 12; all histories of length <= 3 (thorough 4) over a reduced alphabet are "
        "enumerated) over {next on a borrowed handle, next on the underlying iterator, aclose a handle, aclose via "
        "iter(handle), asend, re-borrow (of the underlying or of a handle), hand a handle to tool T (26 tools and "
        "aggregations that close their inputs), take j items, then close T / run T to exhaustion / abandon T (drop + "
        "gc with finaliser hooks)} x underlying in {async generator, class with aclose, class without aclose, class "
        "with aclose/asend/athrow, class with aclose/asend but no athrow}. Oracle: a shared synchronous iterator on which every operation is mirrored with "
        "the stdlib counterpart: after EVERY operation the items received and the number of items the underlying "
        "iterator has served must equal the model's; a closed handle yields nothing and does not advance; the "
        "underlying iterator never observes aclose and finally yields exactly the remaining items to its owner. "
        "Handle states the property does not fix (tool closed before its first step, abandoned tools) are tracked as "
        "unknown and resolved by the next observation. non-trivial = history with a tool or close operation followed "
        "by a later observation; distinct = (underlying flavour, history)")
RULE += (' Also: adapter and future-like underlying iterators; a second task closing the handle while a read through it is pending; scopes (scoped_iter) opened over a borrowed handle, the ended scoped handle staying under observation; tools whose own callable fails while they hold the handle; reads through a bound __anext__ taken before the first item; islice with an unaligned stop.')
RULE += (' Also: the handle as one of several inputs of a tool at every position (zip strict with 3-4 inputs, zip(h, h), map with two inputs, chain middle, compress selectors, merge with a second source); a tool ending in ValueError is compared like one that ends.')
RULE += (' Also: scopes over borrowed handles left by an Exception / BaseException raised in the block.')
RULE += (' Also: a front-end iterator whose __aiter__ hands out the inner iterator shared with its owner.')
RULE += (' Also: a refused re-entry of the active scope context inside the block; a stale-group poll tool.')
RULE += (' Also: a tool running a groupby whose key fails once over the borrowed handle.')
RULE += (' Also: after a refused close (read pending) the idle handle is closed again and must be dead; degenerate-parameter tools (nlargest 0, nsmallest -1, islice 0) on shared handles.')
RULE += (' Also: a scope context created over a live handle and entered after the handle was closed; the grouper idiom (one handle at every position).')
RULE += (" Also: a handle closed while the owner's own read of the underlying iterator is in flight; empty slices that still skip (islice 2,2 / 3,1 / 2,0,3) on shared handles.")
RULE += (' Also: the underlying iterator fails once through a handle, which is then closed and must be silent.')
RULE += (' Also: an exception thrown into a CLOSED handle reaches nothing (class sources with athrow but no asend included).')
RULE += (' Also: streams whose items are awaitable jobs (never awaited by a handle); aggregations that reject an item (dict over non-pairs) stop right there.')
RULE += (' Also: a value sent through a handle over a generator that was never advanced is refused and takes nothing.')
RULE += (' Also: a chain closed before its first item has closed the handles it was given.')
RULE += (' Also: sum over a handle whose first item cannot be added stops at that item.')
RULE += (' Also: an ended scope context cannot be entered a second time.')
RULE += (' Also: the handle zipped with a class iterator that has nothing to close; a set built from a chain whose first element is unhashable.')
RULE += (' Also: the handle merged after a source that compares equal to everything.')
RULE += (' Also: min / max without a key meeting an item they cannot compare (they stop there; the rest stays on the handle).')
RULE += (' Also: a transient failure of the underlying iterator met by a tool reading through the handle (the tool, closed, has closed the handle).')
RULE += (' Also: the handle merged between empty inputs and inputs that end early (closed with the tool at every stopping point).')
ASSUMPTIONS = ["laziness of the tools themselves is C05's concern; here the stdlib twin predicts how many items a tool takes",
               "athrow on a LIVE handle is not part of the property's operation list and is not generated; athrow on a closed handle is"]
EXHAUSTIVE_SUBSPACES = 'all histories of length <= 3 (thorough: 4) over a 13-operation alphabet'
EXHAUSTIVE = {"quick": False, "thorough": False}
N_RANDOM = {"quick": 30000, "thorough": 1500000}
FLAVS = ["async_gen", "async_class", "async_class_bare", "async_class_full", "async_class_asend", "async_class_proxy",
         "async_class_future", "async_class_delegating", "async_class_bare_full", "async_class_athrow"]

STOP = "STOP"


def _pred_lt2(x):
    return x.key < 2


def _mk(*xs):
    return Item(sum(x.key for x in xs), ("mk",) + tuple(x.uid for x in xs))


def _uid(x):
    if isinstance(x, Item):
        return ("I", x.uid)
    if isinstance(x, (tuple, list)):
        return tuple(_uid(y) for y in x)
    return x


class _bare:
    """A class-based async iterator without ``aclose`` (nothing to close)."""

    def __init__(self, items):
        self._it = iter(items)

    def __aiter__(self):
        return self

    async def __anext__(self):
        try:
            return next(self._it)
        except StopIteration:
            raise StopAsyncIteration from None


def _unorderable_from_2(x):
    """Items with key >= 2 become text: no ``<`` between them and the numbers the others become."""
    return "text" if x.key >= 2 else x.key


class _wild(_bare):
    """A closeable class-based source that compares equal to anything (and hashes like nothing in particular)."""

    def __eq__(self, other):
        return True

    def __hash__(self):
        return 0

    async def aclose(self):
        self._it = iter(())


class _Thrown(Exception):
    pass


def _failing(after, impl):
    """A fresh callable that works ``after`` times and then fails (the tool's own callable raising mid-way)."""
    state = {"n": 0}

    def fn(*args):
        state["n"] += 1
        if state["n"] > after:
            raise LookupError("the tool's callable failed")
        return impl(*args)

    return fn


def _key_failing_once():
    state = {"n": 0}

    def key(x):
        state["n"] += 1
        if state["n"] == 2:
            raise LookupError("the key fails once")
        return x.key % 2
    return key


async def _gb_keyfail_async(h):
    # a groupby whose key fails ONCE; the consumer carries on with the same group and the groupby: the item whose key
    # could not be computed is dropped (itertools), every later reader of the shared iterator starts where it should
    gb = A.groupby(h, key=_key_failing_once())
    out = []
    try:
        k, g = await gb.__anext__()
        out.append(k)
        for _ in range(3):
            try:
                out.append(_uid(await A.anext(g, "END")))
            except LookupError:
                out.append("ERR")
        try:
            out.append((await gb.__anext__())[0])
        except LookupError:
            out.append("ERR")
    except StopAsyncIteration:
        out.append("STOP")
    except LookupError:
        out.append("ERR-first")
    await gb.aclose()
    return tuple(out)


def _gb_keyfail_sync(it):
    gb = itertools.groupby(it, key=_key_failing_once())
    out = []
    try:
        k, g = next(gb)
        out.append(k)
        for _ in range(3):
            try:
                out.append(_uid(next(g, "END")))
            except LookupError:
                out.append("ERR")
        try:
            out.append(next(gb)[0])
        except LookupError:
            out.append("ERR")
    except StopIteration:
        out.append("STOP")
    except LookupError:
        out.append("ERR-first")
    return tuple(out)


async def _gb_stale_async(h):
    gb = A.groupby(h, key=lambda x: x.key % 2)
    out = []
    try:
        k1, g1 = await gb.__anext__()
        out.append(k1)
        k2, g2 = await gb.__anext__()
        out.append(k2)
        out.append(await A.anext(g2, "END"))
        out.append(await A.anext(g1, "END"))
        out.append(await A.anext(g1, "END"))
    except StopAsyncIteration:
        out.append("STOP")
    await gb.aclose()
    return tuple(out)


def _gb_stale_sync(it):
    gb = itertools.groupby(it, key=lambda x: x.key % 2)
    out = []
    try:
        k1, g1 = next(gb)
        out.append(k1)
        k2, g2 = next(gb)
        out.append(k2)
        out.append(next(g2, "END"))
        out.append(next(g1, "END"))
        out.append(next(g1, "END"))
    except StopIteration:
        out.append("STOP")
    return tuple(out)


# name -> (kind, async factory(handle), sync factory(iterator))
TOOLS = {
    # tools whose own callable fails while they hold the handle: whatever they do about it, the underlying stays open
    "filter_fail": ("iter", lambda h: A.filter(_failing(1, lambda x: True), h), lambda it: filter(_failing(1, lambda x: True), it)),
    "takewhile_fail": ("iter", lambda h: A.takewhile(_failing(2, lambda x: True), h),
                       lambda it: itertools.takewhile(_failing(2, lambda x: True), it)),
    "map_fail": ("iter", lambda h: A.map(_failing(1, _mk), h), lambda it: map(_failing(1, _mk), it)),
    "accumulate_fail": ("iter", lambda h: A.accumulate(h, _failing(1, lambda a, b: b), initial=Item(0, "acc")),
                        lambda it: itertools.accumulate(it, _failing(1, lambda a, b: b), initial=Item(0, "acc"))),
    "reduce_fail": ("agg", lambda h: A.reduce(_failing(1, lambda a, b: a), h, None),
                    lambda it: __import__("functools").reduce(_failing(1, lambda a, b: a), it, None)),
    "min_key_fail": ("agg", lambda h: A.min(h, key=_failing(1, lambda x: x.key), default=None),
                     lambda it: min(it, key=_failing(1, lambda x: x.key), default=None)),

    "islice2": ("iter", lambda h: A.islice(h, 2), lambda it: itertools.islice(it, 2)),
    "islice_1_4_2": ("iter", lambda h: A.islice(h, 1, 4, 2), lambda it: itertools.islice(it, 1, 4, 2)),
    # a stop that is not aligned with the step: the trailing skipped items are consumed all the same
    "islice_0_5_3": ("iter", lambda h: A.islice(h, 0, 5, 3), lambda it: itertools.islice(it, 0, 5, 3)),
    "islice_1_6_4": ("iter", lambda h: A.islice(h, 1, 6, 4), lambda it: itertools.islice(it, 1, 6, 4)),
    "takewhile": ("iter", lambda h: A.takewhile(_pred_lt2, h), lambda it: itertools.takewhile(_pred_lt2, it)),
    "dropwhile": ("iter", lambda h: A.dropwhile(_pred_lt2, h), lambda it: itertools.dropwhile(_pred_lt2, it)),
    "filter": ("iter", lambda h: A.filter(_pred_lt2, h), lambda it: filter(_pred_lt2, it)),
    "filterfalse": ("iter", lambda h: A.filterfalse(_pred_lt2, h), lambda it: itertools.filterfalse(_pred_lt2, it)),
    "map": ("iter", lambda h: A.map(_mk, h), lambda it: map(_mk, it)),
    "enumerate": ("iter", lambda h: A.enumerate(h), lambda it: enumerate(it)),
    "zip": ("iter", lambda h: A.zip(h, [7, 8, 9]), lambda it: zip(it, [7, 8, 9])),
    "zip_rev": ("iter", lambda h: A.zip([7, 8], h), lambda it: zip([7, 8], it)),
    "zip_longest": ("iter", lambda h: A.zip_longest(h, [7]), lambda it: itertools.zip_longest(it, [7])),
    # the handle as one of SEVERAL inputs, at every position: how far a tool reads each of its inputs before it
    # stops (or raises) decides what the next user of the handle sees
    "zip_strict_last": ("iter", lambda h: A.zip([7], [7, 8], h, strict=True), lambda it: zip([7], [7, 8], it, strict=True)),
    "zip_strict_last0": ("iter", lambda h: A.zip([], [7], h, strict=True), lambda it: zip([], [7], it, strict=True)),
    "zip_strict_mid": ("iter", lambda h: A.zip([7, 8], h, [7, 8], strict=True), lambda it: zip([7, 8], it, [7, 8], strict=True)),
    "zip_strict_first": ("iter", lambda h: A.zip(h, [7], [7, 8], strict=True), lambda it: zip(it, [7], [7, 8], strict=True)),
    "zip_strict_4": ("iter", lambda h: A.zip([7, 8], [7, 8, 9], [7, 8], h, strict=True),
                     lambda it: zip([7, 8], [7, 8, 9], [7, 8], it, strict=True)),
    "zip3_last": ("iter", lambda h: A.zip([7, 8], [7], h), lambda it: zip([7, 8], [7], it)),
    "zip_twice": ("iter", lambda h: A.zip(h, h), lambda it: zip(it, it)),
    # the "grouper" idiom: one shared handle at every position
    "zip_longest_thrice": ("iter", lambda h: A.zip_longest(h, h, h, fillvalue=None), lambda it: itertools.zip_longest(it, it, it, fillvalue=None)),
    "zip_longest_twice_mixed": ("iter", lambda h: A.zip_longest(h, [7], h), lambda it: itertools.zip_longest(it, [7], it)),
    "zip_strict_twice": ("iter", lambda h: A.zip(h, h, strict=True), lambda it: zip(it, it, strict=True)),
    "map_twice": ("iter", lambda h: A.map(lambda a, b: (a, b), h, h), lambda it: map(lambda a, b: (a, b), it, it)),
    "zip_longest3": ("iter", lambda h: A.zip_longest([7], h, [7, 8]), lambda it: itertools.zip_longest([7], it, [7, 8])),
    "map2_last": ("iter", lambda h: A.map(lambda a, b: b, [7, 8], h), lambda it: map(lambda a, b: b, [7, 8], it)),
    "map2_first": ("iter", lambda h: A.map(lambda a, b: a, h, [7, 8]), lambda it: map(lambda a, b: a, it, [7, 8])),
    "chain_mid": ("iter", lambda h: A.chain([7], h, [8]), lambda it: itertools.chain([7], it, [8])),
    "compress_sel": ("iter", lambda h: A.compress([7, 8], h), lambda it: itertools.compress([7, 8], it)),
    "merge2": ("iter", lambda h: A.merge(h, [Item(1, "m")], key=lambda x: x.key), lambda it: heapq.merge(it, [Item(1, "m")], key=lambda x: x.key)),
    "chain": ("iter", lambda h: A.chain([7], h), lambda it: itertools.chain([7], it)),
    "accumulate": ("iter", lambda h: A.accumulate(h, initial=Item(0, "acc")),
                   lambda it: itertools.accumulate(it, initial=Item(0, "acc"))),
    "batched2": ("iter", lambda h: A.batched(h, 2), lambda it: itertools.batched(it, 2)),
    "pairwise": ("iter", lambda h: A.pairwise(h), lambda it: itertools.pairwise(it)),
    "compress": ("iter", lambda h: A.compress(h, [1, 0, 1, 1]), lambda it: itertools.compress(it, [1, 0, 1, 1])),
    "merge": ("iter", lambda h: A.merge(h), lambda it: heapq.merge(it)),
    "cycle": ("iter", lambda h: A.cycle(h), lambda it: itertools.cycle(it)),
    "tee0": ("iter", lambda h: A.tee(h, 2)[0], lambda it: itertools.tee(it, 2)[0]),
    "groupby_keys": ("iter", lambda h: A.map(lambda kg: kg[0], A.groupby(h)), lambda it: map(lambda kg: kg[0], itertools.groupby(it))),
    # groupby used the awkward way: a second group is started and read, then the FIRST (now stale) group is polled -
    # it must find out that it is stale without taking anything from the shared iterator
    "groupby_key_fails_once": ("agg", lambda h: _gb_keyfail_async(h), lambda it: _gb_keyfail_sync(it)),
    "groupby_stale_poll": ("agg", lambda h: _gb_stale_async(h), lambda it: _gb_stale_sync(it)),
    "list": ("agg", lambda h: A.list(h), lambda it: list(it)),
    "any": ("agg", lambda h: A.any(h), lambda it: any(it)),
    "all": ("agg", lambda h: A.all(h), lambda it: all(it)),
    "min": ("agg", lambda h: A.min(h, default=None), lambda it: min(it, default=None)),
    "nlargest2": ("agg", lambda h: A.nlargest(h, 2), lambda it: heapq.nlargest(2, it)),
    # degenerate parameters with which the counterpart does not touch its input at all: the shared handle stays where
    # it is, for whoever uses it next
    "nlargest0": ("agg", lambda h: A.nlargest(h, 0), lambda it: heapq.nlargest(0, it)),
    "nsmallest_neg": ("agg", lambda h: A.nsmallest(h, -1), lambda it: heapq.nsmallest(-1, it)),
    "islice_0": ("iter", lambda h: A.islice(h, 0), lambda it: itertools.islice(it, 0)),
    # ... and EMPTY slices that, like the counterpart's, still skip their leading items on the shared handle
    "islice_2_2": ("iter", lambda h: A.islice(h, 2, 2), lambda it: itertools.islice(it, 2, 2)),
    "islice_3_1": ("iter", lambda h: A.islice(h, 3, 1), lambda it: itertools.islice(it, 3, 1)),
    "islice_2_0_3": ("iter", lambda h: A.islice(h, 2, 0, 3), lambda it: itertools.islice(it, 2, 0, 3)),
    "reduce": ("agg", lambda h: A.reduce(lambda a, b: a, h, None), lambda it: __import__("functools").reduce(lambda a, b: a, it, None)),
    # an aggregation that REJECTS an item (not a key/value pair): it stops right there, like the counterpart - what
    # follows the rejected item is still on the shared handle
    "dict_rejects_item": ("agg", lambda h: A.dict(h), lambda it: dict(it)),
    "dict_rejects_later_item": ("agg", lambda h: A.dict(A.chain([(0, 0)], h)), lambda it: dict(itertools.chain([(0, 0)], it))),
    # the handle next to a class-based iterator that has nothing to close: the handle is closed all the same
    # the handle merged after a source that considers itself equal to everything (a wildcard record stream)
    "merge_after_wildcard_source": ("iter", lambda h: A.merge(_wild([Item(0, "w0"), Item(9, "w9")]), h, key=lambda x: x.key),
                                    lambda it: heapq.merge([Item(0, "w0"), Item(9, "w9")], it, key=lambda x: x.key)),
    # the handle between an EMPTY input and one that ends early: positions among the inputs and among the live ones differ
    "merge_between_empty_and_short": ("iter", lambda h: A.merge([], h, [Item(-1, "m1")], key=lambda x: x.key),
                                      lambda it: heapq.merge([], it, [Item(-1, "m1")], key=lambda x: x.key)),
    "merge_after_two_empties": ("iter", lambda h: A.merge([], _bare([]), h, [Item(-1, "m0")], key=lambda x: x.key),
                                lambda it: heapq.merge([], [], it, [Item(-1, "m0")], key=lambda x: x.key)),
    "zip_with_bare_source": ("iter", lambda h: A.zip(h, _bare([7, 8, 9])), lambda it: zip(it, [7, 8, 9])),
    "zip_bare_source_first": ("iter", lambda h: A.zip(_bare([7, 8]), h), lambda it: zip([7, 8], it)),
    "set_rejects_first": ("agg", lambda h: A.set(A.chain([[0]], h)), lambda it: set(itertools.chain([[0]], it))),
    # comparisons that are refused for one item (no key): the aggregation fails AT that item, the rest stays on the handle
    "max_rejects_item": ("agg", lambda h: A.max(A.map(_unorderable_from_2, h)), lambda it: max(map(_unorderable_from_2, it))),
    "min_rejects_item": ("agg", lambda h: A.min(A.map(_unorderable_from_2, h), default=None), lambda it: min(map(_unorderable_from_2, it), default=None)),
    "sum_rejects_item": ("agg", lambda h: A.sum(h), lambda it: sum(it)),
    "set_items": ("agg", lambda h: A.set(h), lambda it: set(it)),
    "tuple_items": ("agg", lambda h: A.tuple(h), lambda it: tuple(it)),
    "sorted_items": ("agg", lambda h: A.sorted(h, key=lambda x: x.key), lambda it: sorted(it, key=lambda x: x.key)),
    "max_items": ("agg", lambda h: A.max(h, key=lambda x: x.key, default=None), lambda it: max(it, key=lambda x: x.key, default=None)),
    "sum_items": ("agg", lambda h: A.sum(h, Item(0, "s")), lambda it: sum(it, Item(0, "s"))),
}
TOOL_NAMES = list(TOOLS)
# tools whose own callable hands back one of the items as its result
JOB_RESULT_TOOLS = {"groupby_keys", "map2_last", "map2_first", "accumulate_fail", "accumulate", "sum_items", "reduce", "reduce_fail"}


def gen_history(rng, maxops=12):
    ops = []
    nh = 1
    for _ in range(rng.randint(1, maxops)):
        r = rng.random()
        h = rng.randrange(nh)
        if r < 0.06:
            ops.append(["next_f", h])
        elif r < 0.22:
            ops.append(["next_b", h])
        elif r < 0.32:
            ops.append(["next_u"])
        elif r < 0.40:
            ops.append(["aclose_b", h])
        elif r < 0.46:
            ops.append(["aclose_iter", h])
        elif r < 0.50:
            ops.append(["asend", h] + (["value"] if rng.random() < 0.4 else []))
        elif r < 0.52:
            ops.append(["athrow_closed", h])
        elif r < 0.62:
            ops.append(["reborrow", rng.choice([-1, h])])
            nh += 1
        elif r < 0.635:
            ops.append(["fault_then_close", h, rng.choice(["aclose", "aclose_iter", "tool:zip_longest3", "tool:zip", "tool:map2_first", "tool:chain_mid", "tool:merge2", "tool:compress_sel"])])
        elif r < 0.66:
            # a scope context CREATED over the live handle, which is then closed before the context is entered
            ops.append(["scope_late", h, rng.choice(["aclose", "aclose_iter"])])
            nh += 1
        elif r < 0.72:
            # (how the block is left: falling through, or by an exception / a BaseException raised in it)
            # (... and whether a re-entry of the very same context object is attempted - and refused - in the block)
            ops.append(["scope", h, rng.randint(0, 2), rng.choice(["fall", "fall", "raise", "raise_base"]),
                        rng.random() < 0.3])
            nh += 1
        else:
            ops.append(["tool", rng.choice(TOOL_NAMES), h, rng.randint(0, 4), rng.choice(["close", "close", "exhaust", "abandon"])])
    return ops


def cases(tier, seed, shard, nshards):
    idx = 0
    alphabet = [["next_b", 0], ["next_u"], ["aclose_b", 0], ["aclose_iter", 0], ["asend", 0], ["reborrow", 0], ["next_b", 1],
                ["tool", "islice2", 0, 1, "close"], ["tool", "takewhile", 0, 1, "abandon"], ["tool", "zip", 0, 0, "close"],
                ["tool", "list", 0, 0, "close"], ["tool", "chain", 0, 0, "close"], ["tool", "tee0", 1, 1, "close"],
                ["scope", 0, 1], ["asend", 1], ["next_b", 2], ["next_f", 0], ["athrow_closed", 0], ["asend", 0, "value"]]
    maxlen = 3 if tier == "quick" else 4
    for n in range(1, maxlen + 1):
        for hist in itertools.product(alphabet, repeat=n):
            idx += 1
            if idx % nshards == shard:
                yield {"ops": [list(o) for o in hist], "flav": FLAVS[idx % len(FLAVS)], "keys": [0, 1, 2, 0, 1, 3, 1]}
    # a second task closes the handle while a first one is waiting for an item through it
    for flav in FLAVS:
        for reborrow in (False, True):
            for close_at in (1, 2, 3):
                for susp in (1, 2):
                    for via in ("handle", "parent", "scope"):
                        if via == "parent" and not reborrow:
                            continue
                        idx += 1
                        if idx % nshards == shard:
                            yield {"kind": "conc_close", "flav": flav, "reborrow": reborrow, "close_at": close_at,
                                   "susp": susp, "via": via}
                            if via == "handle":
                                # ... while the OWNER is waiting for an item from the underlying iterator itself
                                yield {"kind": "conc_close", "flav": flav, "reborrow": reborrow, "close_at": close_at,
                                       "susp": susp, "via": via, "reader": "owner"}
    rng = random.Random(f"C07-{seed}-{shard}")
    for _ in range(N_RANDOM[tier] // nshards):
        yield {"ops": gen_history(rng), "flav": rng.choice(FLAVS), "keys": [rng.randrange(4) for _ in range(rng.randint(0, 9))],
               "jobs": rng.random() < 0.2}


class CountIt:
    """The shared synchronous iterator of the model."""

    def __init__(self, items):
        self.items = items
        self.pos = 0

    def __iter__(self):
        return self

    def __next__(self):
        if self.pos >= len(self.items):
            raise StopIteration
        item = self.items[self.pos]
        self.pos += 1
        return item


class ClosedView:
    """What the model hands to a stdlib tool for a closed handle: nothing, no advance."""

    def __iter__(self):
        return self

    def __next__(self):
        raise StopIteration


def run_history(case, stats, scoped=None):
    """Shared by C07 (scoped=None) and C08 (scoped = nesting/exit description)."""
    CTX.reset()
    keys = case["keys"]
    # (some streams carry awaitable jobs as items: payload for the owner, nothing a handle has any business awaiting)
    mk = (lambda k, i: (JobItem if i % 2 else Item)(k, (0, i), truth=k != 0)) if case.get("jobs") else \
        (lambda k, i: Item(k, (0, i), truth=k != 0))
    st = SrcState(0, [mk(k, i) for i, k in enumerate(keys)], Plan(), log=False)
    under = make_source(st, case["flav"])
    model = CountIt([mk(k, i) for i, k in enumerate(keys)])
    viols = []
    head = f"borrow under={case['flav']} keys={keys} ops={case['ops']}"
    has_asend = case["flav"] in ("async_gen", "async_class_full", "async_class_asend", "async_class_bare_full")
    counters = Counter()

    async def main():
        handles = [A.borrow(under)]
        # a reference to the bound ``__anext__`` of each handle, taken BEFORE its first item (the ``fetch =
        # it.__anext__`` idiom of hand-written loops): it is the handle's method, closed when the handle is
        fetchers = {0: handles[0].__anext__}
        self_closed = set()  # handles whose own wrapper was certainly closed
        own = ["open"]  # state of each handle itself
        parent = [None]  # index of the handle it was borrowed from (None: the underlying iterator)

        class _State:
            """Effective state: a view on a closed handle is closed as well."""

            def __getitem__(self, h):
                seen = "open"
                while h is not None:
                    if own[h] in ("closed", "closed-or-exhausted"):
                        return own[h] if seen == "open" else "closed"
                    if own[h] == "unknown":
                        seen = "unknown"
                    h = parent[h]
                return seen

            def __setitem__(self, h, value):
                if own[h] == "closed":
                    return  # closed is permanent
                own[h] = value

        state = _State()

        def fail(key, msg):
            viols.append({"key": key, "msg": f"{head}: {msg}"[:1200]})

        def check_under(n, op):
            if st.closed or st.finished_gen() and not st.ended:
                fail("borrow/underlying-closed", f"after op {n} {op}: the underlying iterator was closed")
                return False
            if st.pos != model.pos:
                fail("borrow/underlying-advanced-differently",
                     f"after op {n} {op}: underlying served {st.pos} items, shared-iterator model {model.pos}")
                return False
            return True

        async def anext_of(obj):
            try:
                return _uid(await obj.__anext__())
            except StopAsyncIteration:
                return STOP
            except LookupError as exc:
                return ("raised", type(exc).__name__, str(exc))
            except ValueError as exc:  # zip(strict=True): lengths differ
                return ("raised", type(exc).__name__, "")

        def model_view(h):
            if state[h] == "closed":
                return ClosedView()
            return model

        for n, op in enumerate(case["ops"]):
            kind = op[0]
            if kind == "next_u":
                got = await anext_of(under)
                want = _uid(next(model, STOP)) if True else None
                if got != want:
                    fail("borrow/owner-sequence", f"op {n} next on underlying gave {got}, expected {want}")
                    return
            elif kind in ("next_b", "asend", "next_f"):
                h = op[1] if op[1] < len(handles) else 0
                if kind == "next_f" and h not in fetchers:
                    continue
                if kind == "asend" and (not has_asend or not hasattr(handles[h], "asend")):
                    continue
                if kind == "asend" and h not in self_closed and state[h] != "open":
                    # asend of a view whose *parent* handle was closed: not fixed by the property
                    try:
                        await handles[h].asend(None)
                    except StopAsyncIteration:
                        pass
                    model.pos = st.pos
                    if not check_under(n, op):
                        return
                    continue
                pos_before = st.pos
                try:
                    if kind == "asend" and len(op) > 2 and op[2] == "value":
                        # a VALUE sent through the handle: a generator that was never advanced refuses it (TypeError)
                        # and stays where it is - nothing is taken from it on the sender's behalf
                        try:
                            got = _uid(await handles[h].asend("a value sent through the handle"))
                        except TypeError:
                            counters["values_sent_to_a_fresh_generator_refused"] += 1
                            if st.pos != pos_before:
                                fail("borrow/underlying-advanced-differently",
                                     f"op {n} {op}: the refused send of a value advanced the underlying from {pos_before} to {st.pos}")
                                return
                            continue
                    elif kind == "asend":
                        got = _uid(await handles[h].asend(None))
                    elif kind == "next_f":
                        got = _uid(await fetchers[h]())
                        counters["reads_through_a_kept_anext_reference"] += 1
                    else:
                        got = _uid(await handles[h].__anext__())
                except StopAsyncIteration:
                    got = STOP
                if state[h] == "unknown":
                    # resolved by this observation
                    state[h] = "open" if (st.pos != pos_before or got != STOP) else "closed-or-exhausted"
                    counters["unknown_states_resolved"] += 1
                if state[h] in ("closed", "closed-or-exhausted"):
                    if got != STOP or st.pos != pos_before:
                        fail("borrow/closed-handle-still-yields", f"op {n} {op}: closed handle gave {got} "
                                                                  f"(underlying advanced: {st.pos != pos_before})")
                        return
                    counters["closed_handle_observed_silent"] += 1
                else:
                    want = _uid(next(model, STOP))
                    if got != want:
                        fail("borrow/handle-sequence", f"op {n} {op}: handle gave {got}, shared iterator gives {want}")
                        return
            elif kind == "athrow_closed":
                # an exception thrown into a handle that was closed: it reaches nothing - the underlying iterator is
                # neither advanced nor told (throwing into a LIVE handle is forwarded and not judged here)
                h = op[1] if op[1] < len(handles) else 0
                if h not in self_closed or not hasattr(handles[h], "athrow"):
                    continue
                pos_before = st.pos
                try:
                    got = _uid(await handles[h].athrow(_Thrown("thrown into a closed handle")))
                except (_Thrown, StopAsyncIteration):
                    got = STOP
                if got is None:
                    got = STOP  # (a finished async generator answers a throw with nothing at all)
                if got != STOP or st.pos != pos_before:
                    fail("borrow/closed-handle-still-yields", f"op {n} {op}: athrow on the closed handle gave {got} "
                                                              f"(underlying advanced: {st.pos != pos_before})")
                    return
                counters["throws_into_closed_handles"] += 1
            elif kind in ("aclose_b", "aclose_iter"):
                h = op[1] if op[1] < len(handles) else 0
                target = handles[h] if kind == "aclose_b" else A.iter(handles[h])
                try:
                    await target.aclose()
                except BaseException as exc:  # noqa: BLE001
                    fail("borrow/aclose-raises", f"op {n} {op}: {type(exc).__name__}: {exc}")
                    return
                state[h] = "closed"
                # only an explicit aclose certainly rebinds asend; a tool may merely have exhausted the handle
                # (zip_longest drops exhausted inputs without closing them)
                self_closed.add(h)
                counters["handle_closes"] += 1
            elif kind == "fault_then_close":
                # the underlying iterator fails ONCE (a timeout, a transient error) while it is read through the handle;
                # the handle is then closed like any other: from there on it is silent, whatever the failure did to it
                h = op[1] if op[1] < len(handles) else 0
                if state[h] != "open" or case["flav"] == "async_gen" or not keys or parent[h] is not None:
                    # (a generator source is finished by its own failure; so is every handle BELOW a view the failure
                    # passes through - only handles borrowed from the underlying iterator itself are used here)
                    continue
                boom = RuntimeError("transient failure of the underlying iterator")
                st.plan = Plan(st.plan.susp, st.uses + 1, boom)
                via_tool = None
                if op[2].startswith("tool:"):
                    # ... the failure happens while a TOOL reads through the handle; the tool is closed afterwards and
                    # has closed the handle it was given, like a tool that ended any other way
                    via_tool = TOOLS[op[2][5:]][1](handles[h])
                    counters["tools_met_a_transient_failure"] += 1
                try:
                    await (via_tool if via_tool is not None else handles[h]).__anext__()
                except RuntimeError as exc:
                    if exc is not boom:
                        fail("borrow/handle-sequence", f"op {n} {op}: the underlying iterator's failure came out as {exc!r}")
                        return
                except StopAsyncIteration:
                    pass  # (the source was exhausted already: its end comes first)
                else:
                    pass
                st.plan = Plan(st.plan.susp)
                try:
                    await (via_tool.aclose() if via_tool is not None else handles[h].aclose() if op[2] == "aclose" else A.iter(handles[h]).aclose())
                except BaseException as exc:  # noqa: BLE001
                    fail("borrow/aclose-raises", f"op {n} {op}: {type(exc).__name__}: {exc}")
                    return
                model.pos = st.pos
                state[h] = "closed"
                self_closed.add(h)
                counters["handles_closed_after_a_transient_failure"] += 1
            elif kind == "scope":
                # a scope over the borrowed handle: ends its own (scoped) handle and closes the borrowed one it was
                # given - never the underlying iterator; the ended scoped handle joins the handles under observation
                h = op[1] if op[1] < len(handles) else 0
                if state[h] != "open":
                    continue
                how = op[3] if len(op) > 3 else "fall"
                left_by = (Exception if how == "raise" else BaseException)("the block fails") if how != "fall" else None
                ctx = A.scoped_iter(handles[h])
                try:
                    async with ctx as sh:
                        if len(op) > 4 and op[4]:
                            # entering the active context a second time is refused - and leaves the first entry as it is
                            try:
                                await ctx.__aenter__()
                            except RuntimeError:
                                counters["scope_reentries_refused"] += 1
                            else:
                                fail("borrow/scope-re-entered", f"op {n} {op}: the active scope context was entered a second time")
                                return
                        for _ in range(op[2]):
                            got = await anext_of(sh)
                            want = _uid(next(model, STOP))
                            if got != want:
                                fail("borrow/handle-sequence", f"op {n} {op}: scoped handle gave {got}, shared iterator gives {want}")
                                return
                        if left_by is not None:
                            counters["scopes_left_by_an_exception"] += 1
                            raise left_by
                except BaseException as exc:  # noqa: BLE001
                    if exc is not left_by:
                        raise
                state[h] = "closed"
                self_closed.add(h)
                handles.append(sh)
                own.append("closed")
                parent.append(h)
                self_closed.add(len(handles) - 1)
                counters["scopes_over_borrowed_handles"] += 1
                # a scope that has ended stays ended: its context object cannot be entered a second time (a retry loop
                # re-using it) - nothing is handed out, nothing is closed again
                try:
                    again = await ctx.__aenter__()
                except RuntimeError:
                    counters["scope_reuse_after_its_end_refused"] += 1
                else:
                    try:
                        got = await anext_of(again)
                    finally:
                        await ctx.__aexit__(None, None, None)
                    if got != STOP:
                        fail("borrow/scoped-handle-alive-after-its-scope",
                             f"op {n} {op}: the ended scope was entered a second time and handed out a live handle ({got})")
                        return
            elif kind == "scope_late":
                # a scope context created over the live handle; the handle is closed BEFORE the context is entered: what
                # the scope hands out then is a handle over a closed handle - it yields nothing, sends reach nothing
                h = op[1] if op[1] < len(handles) else 0
                if state[h] != "open":
                    continue
                ctx = A.scoped_iter(handles[h])
                if op[2] == "aclose":
                    await handles[h].aclose()
                else:
                    await A.iter(handles[h]).aclose()
                state[h] = "closed"
                self_closed.add(h)
                pos = st.pos
                async with ctx as sh:
                    got = [await anext_of(sh)]
                    if hasattr(sh, "asend"):
                        try:
                            got.append(_uid(await sh.asend(None)))
                        except StopAsyncIteration:
                            got.append(STOP)
                if got != [STOP] * len(got) or st.pos != pos:
                    fail("borrow/closed-handle-still-yields",
                         f"op {n} {op}: a scope created over the handle and entered after the handle was closed gave {got}; "
                         f"the underlying went from {pos} to {st.pos} fetched items")
                    return
                handles.append(sh)
                own.append("closed")
                parent.append(h)
                self_closed.add(len(handles) - 1)
                counters["scopes_entered_after_their_handle_was_closed"] += 1
            elif kind == "reborrow":
                src = under if op[1] < 0 or op[1] >= len(handles) else handles[op[1]]
                handles.append(A.borrow(src))
                fetchers[len(handles) - 1] = handles[-1].__anext__
                own.append("open")
                parent.append(None if src is under else op[1])
            elif kind == "tool":
                _, name, h, j, ending = op
                if case.get("jobs") and name in JOB_RESULT_TOOLS:
                    continue  # (a callable RETURNING an awaitable item is asynchronous by the library's rule)
                h = h if h < len(handles) else 0
                tkind, amake, smake = TOOLS[name]
                counters[f"tool_{name}"] += 1
                if state[h] == "unknown" or state[h] == "closed-or-exhausted":
                    # cannot predict what the tool sees; skip but keep the safety checks
                    try:
                        obj = amake(handles[h])
                        if tkind == "agg":
                            await obj
                        else:
                            await anext_of(obj)
                            await obj.aclose()
                    except BaseException:  # noqa: BLE001
                        pass
                    model.pos = st.pos  # resynchronise the model with what was served
                    state[h] = "unknown"
                    if st.closed or (st.finished_gen() and not st.ended):
                        fail("borrow/underlying-closed", f"after op {n} {op}: the underlying iterator was closed")
                        return
                    continue
                view = model_view(h)
                if tkind == "agg":
                    try:
                        got = ("ret", _uid(await amake(handles[h])))
                    except BaseException as exc:  # noqa: BLE001
                        got = ("raise", type(exc).__name__)
                    try:
                        want = ("ret", _uid(smake(view)))
                    except BaseException as exc:  # noqa: BLE001
                        want = ("raise", type(exc).__name__)
                    if got != want:
                        fail("borrow/tool-result", f"op {n} {op}: {got} vs stdlib on the shared iterator {want}")
                        return
                    state[h] = "closed"
                else:
                    ait = amake(handles[h])
                    sit = smake(view)
                    limit = j if ending != "exhaust" else 40
                    if name == "cycle" and ending == "exhaust":
                        limit = 6
                    advanced = False
                    ended = False
                    for _ in range(limit):
                        advanced = True
                        got = await anext_of(ait)
                        try:
                            want = _uid(next(sit))
                        except StopIteration:
                            want = STOP
                        except LookupError as exc:
                            want = ("raised", type(exc).__name__, str(exc))
                        except ValueError as exc:
                            want = ("raised", type(exc).__name__, "")
                        if got != want:
                            fail("borrow/tool-items", f"op {n} {op}: tool gave {got}, stdlib on the shared iterator {want}")
                            return
                        if got == STOP or (isinstance(got, tuple) and got[:1] == ("raised",)):
                            ended = True
                            break
                    if ending == "abandon":
                        del ait
                        gc.collect()
                        run_finalizers()  # the loop gets around to closing what was abandoned
                        state[h] = "closed" if ended else "unknown"
                        counters["tools_abandoned"] += 1
                    else:
                        try:
                            await ait.aclose()
                        except BaseException as exc:  # noqa: BLE001
                            fail("borrow/tool-aclose-raises", f"op {n} {op}: {type(exc).__name__}: {exc}")
                            return
                        if ended or advanced:
                            state[h] = "closed" if name not in ("tee0",) or ended else "unknown"
                        elif name in ("chain", "chain_mid"):
                            # (chain advertises closing what it was given even when it was never advanced)
                            state[h] = "closed"
                            counters["chains_closed_before_their_first_item"] += 1
                        else:
                            state[h] = "unknown"
                        counters["tools_closed"] += 1
            if not check_under(n, op):
                return
        # the owner finally receives exactly the remaining items
        rest = []
        while True:
            x = await anext_of(under)
            if x == STOP:
                break
            rest.append(x)
        want = [_uid(x) for x in model]
        if rest != want:
            fail("borrow/owner-remaining-items", f"owner got {rest} at the end, shared-iterator model has {want} left")
        counters["owner_drained_items"] += len(rest)

    drive(main())
    if CTX.foreign:
        viols.append({"key": "borrow/foreign-suspension", "msg": CTX.foreign[0]})
    for k, v in counters.items():
        stats[k] += v
    stats["histories"] += 1
    kinds = [op[0] for op in case["ops"]]
    nontrivial = any(k in ("tool", "aclose_b", "aclose_iter") for k in kinds[:-1]) and bool(keys)
    return {"violations": viols, "nontrivial": nontrivial, "sig": (case["flav"], str(keys), str(case["ops"]))}


def run_conc_close(case, stats):
    """Task B closes the handle while task A is suspended inside ``handle.__anext__()`` (in the underlying).

    If that close is refused (CPython: "asynchronous generator is already running") the handle simply stays open.
    If it returns normally the handle IS closed: every read started afterwards yields nothing and leaves the
    underlying where it is.  Either way the underlying is never closed and the owner gets the rest in order.
    """
    CTX.reset()
    items = [Item(i, (0, i)) for i in range(6)]
    st = SrcState(0, list(items), Plan(case["susp"]), log=False)
    under = make_source(st, case["flav"])
    parent = A.borrow(under)
    handle = A.borrow(parent) if case["reborrow"] else parent
    target = parent if case["via"] == "parent" else handle
    reads, info = [], {"closed": False}

    by_owner = case.get("reader") == "owner"

    async def reader():
        for _ in range(5):
            rec = {"pos": st.pos, "after_close": info["closed"] and not by_owner}
            reads.append(rec)
            try:
                rec["got"] = await (under.__anext__() if by_owner else handle.__anext__())
            except StopAsyncIteration:
                rec["got"] = "STOP"
                break
            except BaseException as exc:  # noqa: BLE001
                rec["got"] = ("raised", type(exc).__name__)
                break
            finally:
                rec["pos_after"] = st.pos

    probes = {}

    async def closer():
        if case["via"] == "scope":
            # a scope over the handle is left while the other task's read through the handle is pending: whether or
            # not closing the busy handle is refused, the scope's OWN handle has ended
            try:
                async with A.scoped_iter(handle) as scoped:
                    probes["scoped"] = scoped
            except RuntimeError as exc:
                info["refused"] = str(exc)
            pos = st.pos
            try:
                probes["after"] = await scoped.__anext__()
            except StopAsyncIteration:
                probes["after"] = "STOP"
            except RuntimeError as exc:
                probes["after"] = "STOP" if "already running" in str(exc) else ("raised", str(exc))
            if hasattr(scoped, "asend"):
                try:
                    probes["asend"] = await scoped.asend(None)
                except StopAsyncIteration:
                    probes["asend"] = "STOP"
                except RuntimeError as exc:
                    probes["asend"] = "STOP" if "already running" in str(exc) else ("raised", str(exc))
            probes["advanced"] = st.pos - pos
            return
        try:
            await target.aclose()
            info["closed"] = True
        except RuntimeError as exc:
            info["refused"] = str(exc)

    step = {"n": 0}

    def choose(runnable):
        step["n"] += 1
        if step["n"] <= case["close_at"]:
            return 0 if 0 in runnable else runnable[0]
        if step["n"] > case["close_at"] + 40 and step["n"] % 2:
            # (fairness: a closer that keeps itself runnable without finishing must not starve the reader)
            return 0 if 0 in runnable else runnable[0]
        return 1 if 1 in runnable else runnable[0]

    driver = Driver(choose)
    driver.spawn("reader", reader())
    driver.spawn("closer", closer())
    driver.run()
    viols = []
    head = f"borrow under={case['flav']} reborrow={case['reborrow']}: aclose of the {case['via']} while a read through the handle is pending (step {case['close_at']})"
    for t in driver.tasks:
        if t.exc is not None:
            viols.append({"key": "borrow/concurrent-close-raised", "msg": f"{head}: {t.name} ended with {t.exc!r}"})
    if st.closed or (st.gen is not None and st.gen.ag_frame is None and st.pos < len(items)):
        viols.append({"key": "borrow/underlying-closed", "msg": f"{head}: the underlying iterator was closed"})
    if case["via"] == "scope":
        stats["scope_left_during_pending_read"] += 1
        if probes.get("after", "STOP") != "STOP" or probes.get("asend", "STOP") != "STOP":
            viols.append({"key": "borrow/scoped-handle-alive-after-its-scope",
                          "msg": f"{head}: after the scope was left its handle still gave {probes.get('after')!r} "
                                 f"(asend: {probes.get('asend')!r})"})
    if info["closed"] and by_owner:
        # the handle was closed while the owner's own read was in flight: the handle is closed all the same - nothing
        # comes through it any more, neither by __anext__ nor by asend
        async def probe_closed():
            out = {}
            pos = st.pos
            for name in ("__anext__", "asend"):
                if not hasattr(target, name):
                    continue
                try:
                    out[name] = await (target.__anext__() if name == "__anext__" else target.asend(None))
                except StopAsyncIteration:
                    out[name] = "STOP"
                except BaseException as exc:  # noqa: BLE001
                    out[name] = repr(exc)
            out["advanced"] = st.pos - pos
            return out
        if all(t.done for t in driver.tasks):
            out = drive(probe_closed())
            stats["handles_closed_during_the_owners_own_read"] += 1
            if out.get("__anext__", "STOP") != "STOP" or out.get("asend", "STOP") != "STOP" or out["advanced"]:
                viols.append({"key": "borrow/closed-handle-still-yields",
                              "msg": f"{head}: the handle was closed while the owner was reading the underlying iterator; "
                                     f"afterwards the closed handle gave {out}"})
    if info["closed"] and case["via"] == "handle" and not by_owner:
        stats["concurrent_close_accepted"] += 1
        for rec in reads:
            if rec["after_close"] and (rec["got"] != "STOP" or rec["pos_after"] != rec["pos"]):
                viols.append({"key": "borrow/closed-handle-still-yields",
                              "msg": f"{head}: aclose() returned normally, yet a later read got {rec['got']!r} and the "
                                     f"underlying went from {rec['pos']} to {rec['pos_after']} fetched items"})
                break
    elif "refused" in info:
        stats["concurrent_close_refused"] += 1
        if case["via"] != "scope" and all(t.done for t in driver.tasks):
            # the refused attempt closed nothing - and spoiled nothing: once the handle is idle again, closing it works
            # like any first close (the handle ends, the underlying stays where it is)
            async def close_again():
                out = {}
                try:
                    await target.aclose()
                    out["close"] = "ok"
                except BaseException as exc:  # noqa: BLE001
                    out["close"] = repr(exc)
                pos = st.pos
                for name in ("__anext__", "asend"):
                    # (the object that was closed is probed: ``asend`` through a VIEW of a closed parent is not fixed
                    # by the property, see DESIGN section 8)
                    if not hasattr(target, name):
                        continue
                    try:
                        out[name] = await (target.__anext__() if name == "__anext__" else target.asend(None))
                    except StopAsyncIteration:
                        out[name] = "STOP"
                    except BaseException as exc:  # noqa: BLE001
                        out[name] = repr(exc)
                out["advanced"] = st.pos - pos
                return out
            out = drive(close_again())
            stats["closes_repeated_after_a_refused_attempt"] += 1
            if out["close"] != "ok" or out.get("__anext__", "STOP") != "STOP" or out.get("asend", "STOP") != "STOP" or out["advanced"]:
                viols.append({"key": "borrow/close-after-refused-close-does-not-close",
                              "msg": f"{head}: the close was refused; closing the idle handle afterwards gave {out}"})
    # the owner gets everything not yet fetched, in order
    rest = []

    async def drain():
        async for x in under:
            rest.append(x)

    try:
        drive(drain())
    except BaseException as exc:  # noqa: BLE001
        viols.append({"key": "borrow/owner-cannot-continue", "msg": f"{head}: the owner's iteration raised {exc!r}"})
    fetched = [r["got"] for r in reads if isinstance(r.get("got"), Item)]
    seen = fetched + rest
    if [x.uid for x in seen] != [x.uid for x in items if x in seen] or len(set(x.uid for x in seen)) != len(seen) \
            or (rest and [x.uid for x in rest] != [x.uid for x in items[len(items) - len(rest):]]):
        viols.append({"key": "borrow/owner-sequence", "msg": f"{head}: handle delivered {[canon_uid(x) for x in fetched]}, owner then got "
                                                          f"{[canon_uid(x) for x in rest]}"})
    if CTX.foreign:
        viols.append({"key": "borrow/foreign-suspension", "msg": CTX.foreign[0]})
    run_finalizers()
    stats["concurrent_close_runs"] += 1
    return {"violations": viols, "nontrivial": True, "sig": ("conc_close", str(sorted(case.items())))}


def canon_uid(x):
    return getattr(x, "uid", x)


def run_case(case, stats: Counter):
    if case.get("kind") == "conc_close":
        return run_conc_close(case, stats)
    return run_history(case, stats)


def finish(stats, tier):
    for need in ("histories", "handle_closes", "tools_closed", "tools_abandoned", "closed_handle_observed_silent",
                 "unknown_states_resolved", "owner_drained_items", "concurrent_close_runs"):
        if not stats.get(need):
            return f"deciding counter {need} is zero"
    return None
