"""C16 — groupby matches itertools.groupby under every pattern of consuming groups."""
from __future__ import annotations

import itertools
import random
from collections import Counter

import asyncstdlib as A

from ..loop import CTX, drive, Suspend
from ..probes import Item, canon, SrcState, make_source, SyncSrc, Plan

ID = "C16"
LEVEL = "exploration"
ANCHORS = ["itertools.py"]
RULE = ("lock-step differential against itertools.groupby: the same operation sequence over {advance the groupby, "
        "advance group handle i (any previously returned group: live, stale, exhausted)} is applied to both; after "
        "every operation the key returned, the group item (identity via uid) or the end signal, and the key-function "
        "call log must agree. All operation sequences of length <= 6 (quick: <= 5) over {adv, g-1 (latest), g-2, g0} "
        "for inputs of length <= 5 drawn from a fixed input set are enumerated; seeded random inputs of length 0..10 "
        "over 2..4 reflexive keys and random sequences up to length 15; key absent / def / async def (suspending); "
        "sources sync and async flavoured. non-trivial = a group was advanced after the groupby moved on, or partly "
        "consumed, or skipped; distinct = (input, key, ops)")
ASSUMPTIONS = ["itertools.groupby of the running interpreter is the reference", "keys with reflexive equality only"]
EXHAUSTIVE = {"quick": False, "thorough": False}
N_RANDOM = {"quick": 24000, "thorough": 800000}
ENUM_INPUTS = [[], [0], [0, 0], [0, 1], [0, 0, 1], [0, 1, 1], [0, 1, 0], [0, 0, 1, 1], [0, 1, 1, 0], [0, 0, 0, 1, 1],
               [0, 1, 0, 1, 0], [1, 1, 0, 0, 1]]
OPS = ["adv", "g-1", "g-2", "g0"]


def cases(tier, seed, shard, nshards):
    idx = 0
    maxlen = 5 if tier == "quick" else 6
    for keys in ENUM_INPUTS:
        for n in range(1, maxlen + 1):
            for ops in itertools.product(OPS, repeat=n):
                if ops[0] != "adv":
                    continue  # no group exists yet: same as shorter sequences
                idx += 1
                if idx % nshards == shard:
                    yield {"keys": keys, "key": None, "ops": list(ops), "flav": "list", "susp": 0}
    rng = random.Random(f"C16-{seed}-{shard}")
    for _ in range(N_RANDOM[tier] // nshards):
        alpha = rng.choice([2, 3, 4])
        keys = [rng.randrange(alpha) for _ in range(rng.randint(0, 10))]
        ops = []
        for _ in range(rng.randint(1, 15)):
            r = rng.random()
            ops.append("adv" if r < 0.35 else "g-1" if r < 0.75 else rng.choice(["g-2", "g0", "g-3"]))
        yield {"keys": keys, "key": rng.choice([None, "half", "ahalf", "aident"]), "ops": ops,
               "flav": rng.choice(["list", "async_gen", "async_class", "sync_iter"]), "susp": rng.choice([0, 0, 1])}


def run_case(case, stats: Counter):
    keys = case["keys"]
    kname = case["key"]
    calls_s, calls_a = [], []
    # reference
    items_s = [Item(k, (0, i)) for i, k in enumerate(keys)]
    if kname is None:
        gs = itertools.groupby(iter(items_s))
    else:
        def skey(x):
            calls_s.append(x.uid)
            return x.key // 2 if kname.endswith("half") else x.key
        gs = itertools.groupby(iter(items_s), skey)
    ref = []
    groups = []
    for op in case["ops"]:
        if op == "adv":
            try:
                k, g = next(gs)
                groups.append(g)
                ref.append(("key", canon(k)))
            except StopIteration:
                ref.append(("end",))
        else:
            i = int(op[1:])
            if not groups or (i < 0 and -i > len(groups)) or (i >= 0 and i >= len(groups)):
                ref.append(("nogroup",))
                continue
            try:
                ref.append(("item", canon(next(groups[i]))))
            except StopIteration:
                ref.append(("gend",))
    # asyncstdlib
    CTX.reset()
    items_a = [Item(k, (0, i)) for i, k in enumerate(keys)]
    st = SrcState(0, items_a, Plan(case.get("susp", 0)), log=False)
    src = make_source(st, case["flav"])
    got = []

    async def main():
        if kname is None:
            ga = A.groupby(src)
        elif kname.startswith("a"):
            async def akey(x):
                calls_a.append(x.uid)
                if case.get("susp"):
                    await Suspend("key", 1)
                return x.key // 2 if kname.endswith("half") else x.key
            ga = A.groupby(src, key=akey)
        else:
            def key(x):
                calls_a.append(x.uid)
                return x.key // 2
            ga = A.groupby(src, key=key)
        agroups = []
        for op in case["ops"]:
            if op == "adv":
                try:
                    k, g = await ga.__anext__()
                    agroups.append(g)
                    got.append(("key", canon(k)))
                except StopAsyncIteration:
                    got.append(("end",))
            else:
                i = int(op[1:])
                if not agroups or (i < 0 and -i > len(agroups)) or (i >= 0 and i >= len(agroups)):
                    got.append(("nogroup",))
                    continue
                try:
                    got.append(("item", canon(await agroups[i].__anext__())))
                except StopAsyncIteration:
                    got.append(("gend",))

    try:
        drive(main())
    except BaseException as exc:  # noqa: BLE001
        got.append(("raised", type(exc).__name__, str(exc)[:80]))
    stats["histories"] += 1
    stats["operations"] += len(case["ops"])
    # classify interesting patterns
    stale = partial = False
    ng = 0
    for op, r in zip(case["ops"], ref):
        if op == "adv" and r[0] == "key":
            ng += 1
        elif op != "adv" and r[0] != "nogroup":
            i = int(op[1:])
            if (i < 0 and -i != 1) or (i >= 0 and i != ng - 1):
                stale = True
            if r[0] == "item":
                partial = True
    if stale:
        stats["stale_group_advanced"] += 1
    if partial:
        stats["group_items_taken"] += 1
    viols = []
    if CTX.foreign:
        viols.append({"key": "groupby/foreign-suspension", "msg": CTX.foreign[0]})
    if ref != got or calls_s != calls_a:
        d = next((i for i, (a, b) in enumerate(zip(ref, got)) if a != b), min(len(ref), len(got)))
        what = "operations" if ref != got else "key-calls"
        viols.append({"key": f"groupby/{what}",
                      "msg": f"groupby keys={keys} key={kname} flav={case['flav']} ops={case['ops']}: first difference at "
                             f"op {d}: itertools {ref[d] if d < len(ref) else None} vs asyncstdlib "
                             f"{got[d] if d < len(got) else None}; key calls {calls_s} vs {calls_a}"[:900]})
    return {"violations": viols, "nontrivial": stale or partial,
            "sig": (str(keys), kname, str(case["ops"]), case["flav"], case.get("susp", 0))}


def finish(stats, tier):
    for need in ("stale_group_advanced", "group_items_taken"):
        if not stats.get(need):
            return f"deciding counter {need} is zero"
    return None
