"""C16 — groupby matches itertools.groupby under every pattern of consuming groups."""
from __future__ import annotations

import itertools
import random
from collections import Counter

import asyncstdlib as A

from ..loop import CTX, drive, Suspend
from ..probes import JobItem, LenientItem, Item, canon, SrcState, make_source, SyncSrc, Plan
from ..tools import drop_stdlib_repolls

ID = "C16"
LEVEL = "exploration"
ANCHORS = ["itertools.py"]
RULE = ("lock-step differential against itertools.groupby: the same operation sequence over {advance the groupby, "
        "advance group handle i (any previously returned group: live, stale, exhausted), close group handle i (the twin "
        "stops using that group)} is applied to both; after "
        "every operation the key returned, the group item (identity via uid) or the end signal, and the key-function "
        "call log must agree. All operation sequences of length <= 6 (quick: <= 5) over {adv, g-1 (latest), g-2, g0} "
        "for inputs of length <= 5 drawn from a fixed input set are enumerated; seeded random inputs of length 0..10 "
        "over 2..4 reflexive keys and random sequences up to length 15; key absent / def / async def (suspending); "
        "sources sync and async flavoured. non-trivial = a group was advanced after the groupby moved on, or partly "
        "consumed, or skipped; distinct = (input, key, ops)")
RULE += (' Also: group handles closed (the twin stops using the group); random histories in which the key function fails once '
         'and the consumer carries on.')
RULE += (' Also: reflexive keys with one-sided equality (WideKey / NarrowKey) and an unrelated __ne__.')
RULE += (' Also: items that are None (grouped by equality or an is-None key).')
RULE += (' Also: the key failing once with AttributeError / LookupError / RuntimeError.')
RULE += (' Also: lenient keys equal to any foreign object.')
RULE += (' Also: key comparisons that fail once; keys not equal to themselves (one shared NaN object / a fresh NaN per call).')
RULE += (' Also: the consumer drops the groupby object and keeps group handles.')
RULE += (' Also: class sources without aclose.')
RULE += (' Also: sources that set themselves up in __aiter__ and re-iterables handing out a separate iterator.')
RULE += (' Also: keys whose comparisons answer with truthy / falsy objects instead of bools.')
RULE += (' Also: without a key function, items that happen to be awaitable jobs are the keys as they are (never awaited).')
RULE += (' Also: wildcard records (items equal to anything that is not an item) among the items.')
ASSUMPTIONS = ["itertools.groupby of the running interpreter is the reference", "keys with reflexive equality only"]
EXHAUSTIVE_SUBSPACES = "all operation sequences starting with 'adv' of length <= 5 (thorough: 6) over {adv, g-1, g-2, g0} on 12 fixed inputs"
EXHAUSTIVE = {"quick": False, "thorough": False}
N_RANDOM = {"quick": 100000, "thorough": 6000000}
ENUM_INPUTS = [[], [0], [0, 0], [0, 1], [0, 0, 1], [0, 1, 1], [0, 1, 0], [0, 0, 1, 1], [0, 1, 1, 0], [0, 0, 0, 1, 1],
               [0, 1, 0, 1, 0], [1, 1, 0, 0, 1]]
OPS = ["adv", "g-1", "g-2", "g0", "c-1"]


def cases(tier, seed, shard, nshards):
    idx = 0
    maxlen = 5 if tier == "quick" else 6
    for keys in ENUM_INPUTS:
        for n in range(1, maxlen + 1):
            for ops in itertools.product(OPS, repeat=n):
                if ops[0] != "adv":
                    continue  # no group exists yet: same as shorter sequences
                idx += 1
                if idx % nshards == shard:
                    yield {"keys": keys, "key": [None, "noneodd", None, "samenan", None, "freshnan"][idx % 6], "ops": list(ops), "flav": "list", "susp": 0}
    rng = random.Random(f"C16-{seed}-{shard}")
    for _ in range(N_RANDOM[tier] // nshards):
        alpha = rng.choice([2, 3, 4])
        keys = [rng.randrange(alpha) for _ in range(rng.randint(0, 10))]
        ops = []
        for _ in range(rng.randint(1, 15)):
            r = rng.random()
            ops.append("adv" if r < 0.35 else "g-1" if r < 0.72 else rng.choice(["g-2", "g0", "g-3"]) if r < 0.9
                       else rng.choice(["c-1", "c-1", "c-2", "c0"]))
        if rng.random() < 0.15 and len(ops) > 2:
            ops.insert(rng.randrange(1, len(ops)), "drop")
        case = {"keys": keys, "key": rng.choice([None, "half", "ahalf", "aident", "noneodd", "anoneodd", "tuple", "onesided", "aonesided", "lenient", "alenient", "numberlike", "anumberlike", "samenan", "asamenan", "freshnan", "afreshnan"]), "ops": ops,
                # (... a source that sets itself up when asked for its iterator; a re-iterable that hands out a separate iterator)
                "flav": rng.choice(["list", "async_gen", "async_class", "sync_iter", "async_class_bare", "async_class_lazy", "async_iterable"]), "susp": rng.choice([0, 0, 1])}
        if case["key"] is None and rng.random() < 0.5:
            case["jobs"] = True
        elif rng.random() < 0.15:
            case["lenient_items"] = True
        if rng.random() < 0.06:
            # some items ARE None; grouped by equality (no key) or by a key that can take them
            case["keys"] = [k if rng.random() < 0.55 else -1 for k in keys]
            case["key"] = rng.choice([None, None, "isnone", "aisnone"])
        if case["key"] in ("half", "ahalf") and keys and rng.random() < 0.3:
            # the COMPARISON of two keys fails once (the first one involving the key of one particular item)
            case["eqfault"] = rng.randrange(len(keys))
        elif case["key"] is not None and keys and rng.random() < 0.2:
            # the key function fails ONCE, for its k-th item, and the consumer carries on with the same operations:
            # itertools.groupby drops the item whose key it could not compute; it must not turn up in any group
            case["keyfault"] = [rng.randint(1, len(keys)), rng.choice(["ValueError", "KeyError", "TypeError", "Injected", "InjectedBase",
                                                                       "AttributeError", "AttributeError", "LookupError", "RuntimeError"])]
        yield case


class WideKey:
    """Reflexive but one-sided equality: a WideKey claims to equal NarrowKeys as well, a NarrowKey only its own
    kind.  ``old == new`` and ``new == old`` then differ; itertools.groupby asks the key of the RUNNING group
    (``tgtkey == currkey``), and only ``==``."""
    __hash__ = None

    def __eq__(self, other):
        return isinstance(other, (WideKey, NarrowKey))

    def __ne__(self, other):  # (never consulted by the counterpart)
        return True

    def __repr__(self):
        return "WideKey"


class NarrowKey:
    __hash__ = None

    def __eq__(self, other):
        return isinstance(other, NarrowKey)

    def __ne__(self, other):
        return True

    def __repr__(self):
        return "NarrowKey"


class EqFaultKey:
    """A key whose comparison FAILS once: the first ``==`` that involves the key of one particular item raises (a
    comparison consulting something that is briefly unavailable).  itertools.groupby keeps the item it was judging
    buffered across the failure; the consumer carries on."""
    __hash__ = None

    def __init__(self, v, idx, bad, armed):
        self.v, self.idx, self.bad, self.armed = v, idx, bad, armed

    def __eq__(self, other):
        if self.armed["on"] and self.bad in (self.idx, getattr(other, "idx", None)):
            self.armed["on"] = False
            raise ValueError("the key comparison failed")
        return isinstance(other, EqFaultKey) and self.v == other.v

    def __ne__(self, other):
        return not self == other

    def __repr__(self):
        return f"EqFaultKey({self.v})"


_NAN = float("nan")


class LenientKey:
    """A duck-typed key: equal to whatever carries the same tag - and to anything that carries NO tag at all (like
    ``unittest.mock.ANY`` it answers True to foreign objects, placeholders of a library included).  Reflexive and
    symmetric among keys."""
    __hash__ = None

    def __init__(self, tag):
        self.tag = tag

    def __eq__(self, other):
        return getattr(other, "tag", self.tag) == self.tag

    def __ne__(self, other):
        return not self == other

    def __repr__(self):
        return f"LenientKey({self.tag})"


class Verdict:
    """What ``NumberLikeKey.__eq__`` answers: an object with a truth value of its own (an array-library boolean, a
    three-valued logic result) - never the ``True`` / ``False`` singletons."""

    def __init__(self, yes):
        self.yes = yes

    def __bool__(self):
        return self.yes

    def __repr__(self):
        return f"Verdict({self.yes})"


class NumberLikeKey:
    """A key whose comparisons answer with truthy / falsy OBJECTS (``1`` / ``0``, a ``Verdict``) instead of bools - a
    lawful equality all the same: it is the truth value of the answer that counts.  A fresh key object per item."""
    __hash__ = None

    def __init__(self, v):
        self.v = v

    def __eq__(self, other):
        same = isinstance(other, NumberLikeKey) and self.v == other.v
        return (1 if same else 0) if self.v % 2 else Verdict(same)

    def __ne__(self, other):
        return Verdict(not (self == other))

    def __repr__(self):
        return f"NumberLikeKey({self.v})"


def _key_impl(kname):
    if kname is None:
        return None
    if kname.endswith("numberlike"):
        return lambda x: NumberLikeKey(x.key // 2)
    if kname.endswith("lenient"):
        return lambda x: LenientKey(x.key // 2)
    if kname.endswith("samenan"):
        # keys that are NOT EQUAL TO THEMSELVES (float NaN): itertools compares with "identical implies equal" - the
        # very same NaN object is one key (one group), distinct NaN objects are distinct keys (a group each)
        return lambda x: _NAN if x.key % 2 else x.key
    if kname.endswith("freshnan"):
        return lambda x: float("nan") if x.key % 2 else x.key
    if kname.endswith("isnone"):
        return lambda x: x is None
    if kname.endswith("onesided"):
        return lambda x: WideKey() if x.key % 2 else NarrowKey()
    if kname.endswith("half"):
        return lambda x: x.key // 2
    if kname.endswith("noneodd"):
        return lambda x: None if x.key % 2 else x.key  # None is a legitimate, reflexive key
    if kname.endswith("tuple"):
        return lambda x: (x.key // 2, None)
    return lambda x: x.key


def gb_side(case, sync, fault=None, fnfl=None, cont=False):
    """Run the operation sequence on itertools.groupby (sync=True) or asyncstdlib.groupby.

    Returns dict(results, log, src, fn).  ``fault``: tools.Fault on ("src", 0, k) or ("fn", 0, k).
    The event log interleaves ("op", n) markers with the probes' pull / end / call / fault events.
    """
    from ..probes import FnState, make_fn
    CTX.reset()
    keys = case["keys"]
    kname = case["key"]
    plan = Plan(0 if sync else case.get("susp", 0))
    if fault is not None and fault.kind == "src":
        plan = Plan(plan.susp, fault.use, fault.exc)
    # (key -1 stands for an item that IS ``None`` - a value like any other, also as the first item of a run)
    # (with no key function the ITEMS are the keys - also when some of them happen to be awaitable jobs: payload)
    jobs = bool(case.get("jobs")) and kname is None
    # (... or wildcard records: items equal to anything that is not an item)
    lenient = bool(case.get("lenient_items"))
    st = SrcState(0, [(JobItem if jobs and i % 2 else LenientItem if lenient and i % 2 == 0 else Item)(k, (0, i))
                      if k != -1 else None for i, k in enumerate(keys)], plan, log=True)
    fs = None
    impl = _key_impl(kname)
    if case.get("eqfault") is not None:
        armed = {"on": True}
        impl = lambda x: EqFaultKey(x.key // 2, x.uid[1], case["eqfault"], armed)  # noqa: E731
    if impl is not None:
        fs = FnState("key", impl, 0 if sync else case.get("susp", 0))
        if fault is not None and fault.kind == "fn":
            fs.fault_at, fs.exc, fs.fault_phase = fault.use, fault.exc, fault.phase
    results = []

    def term(exc):
        return ("raise", type(exc).__name__, bool(fault is not None and exc is fault.exc))

    if sync:
        src = SyncSrc(st)
        gs = itertools.groupby(src, make_fn(fs, "def")) if fs is not None else itertools.groupby(src)
        groups = []
        abandoned = set()
        for n, op in enumerate(case["ops"]):
            CTX.ev("op", n)
            try:
                if op == "drop":
                    # the consumer lets go of the groupby object itself and keeps only group handles: a live group goes
                    # on yielding the rest of its run (groups keep what they need alive)
                    gs = None
                    results.append(("dropped",))
                    continue
                if op == "adv" and gs is None:
                    results.append(("dropped",))
                    continue
                if op == "adv":
                    try:
                        k, g = next(gs)
                        groups.append(g)
                        results.append(("key", canon(k)))
                    except StopIteration:
                        results.append(("end",))
                else:
                    i = int(op[1:])
                    if not groups or (i < 0 and -i > len(groups)) or (i >= 0 and i >= len(groups)):
                        results.append(("nogroup",))
                        continue
                    if op[0] == "c":
                        # closing a group handle (what any tool does with its input): the twin simply stops using it
                        abandoned.add(i % len(groups))
                        results.append(("closed",))
                        continue
                    if i % len(groups) in abandoned:
                        results.append(("gend",))
                        continue
                    try:
                        results.append(("item", canon(next(groups[i]))))
                    except StopIteration:
                        results.append(("gend",))
            except BaseException as exc:  # noqa: BLE001
                results.append(term(exc))
                if not cont:
                    break
    else:
        src = make_source(st, case["flav"])
        if fnfl is None:
            fnfl = "async_def" if (kname or "").startswith("a") else "def"

        async def main():
            ga = A.groupby(src, key=make_fn(fs, fnfl)) if fs is not None else A.groupby(src)
            agroups = []
            for n, op in enumerate(case["ops"]):
                CTX.ev("op", n)
                try:
                    if op == "drop":
                        ga = None
                        results.append(("dropped",))
                        continue
                    if op == "adv" and ga is None:
                        results.append(("dropped",))
                        continue
                    if op == "adv":
                        try:
                            k, g = await ga.__anext__()
                            agroups.append(g)
                            results.append(("key", canon(k)))
                        except StopAsyncIteration:
                            results.append(("end",))
                    else:
                        i = int(op[1:])
                        if not agroups or (i < 0 and -i > len(agroups)) or (i >= 0 and i >= len(agroups)):
                            results.append(("nogroup",))
                            continue
                        if op[0] == "c":
                            await agroups[i].aclose()
                            results.append(("closed",))
                            continue
                        try:
                            results.append(("item", canon(await agroups[i].__anext__())))
                        except StopAsyncIteration:
                            results.append(("gend",))
                except BaseException as exc:  # noqa: BLE001
                    results.append(term(exc))
                    if not cont:
                        break

        drive(main())
    log = [e for e in CTX.log if e[0] in ("op", "pull", "end", "call", "fault")]
    return {"results": results, "log": log, "src": st, "fn": fs, "foreign": list(CTX.foreign)}


def run_case(case, stats: Counter, compare_log=True):
    keys = case["keys"]
    kname = case["key"]
    gen_flav = case["flav"].endswith("gen") or case["flav"] == "list"
    if "keyfault" in case:
        from ..probes import FAULT_TYPES
        from ..tools import Fault
        use, exc = case["keyfault"]
        ref_side = gb_side(case, True, fault=Fault("fn", 0, use, FAULT_TYPES[exc]("key failed"), "call"), cont=True)
        got_side = gb_side(case, False, fault=Fault("fn", 0, use, FAULT_TYPES[exc]("key failed"), "call"), cont=True)
        stats["histories_with_a_key_failing_once"] += 1
    elif case.get("eqfault") is not None:
        ref_side = gb_side(case, True, cont=True)
        got_side = gb_side(case, False, cont=True)
        stats["histories_with_a_key_comparison_failing_once"] += 1
    else:
        ref_side = gb_side(case, True)
        got_side = gb_side(case, False)
    ref, got = ref_side["results"], got_side["results"]
    stats["histories"] += 1
    stats["operations"] += len(case["ops"])
    # classify interesting patterns
    stale = partial = False
    ng = 0
    for op, r in zip(case["ops"], ref):
        if op == "adv" and r[0] == "key":
            ng += 1
        elif op not in ("adv", "drop") and r[0] not in ("nogroup", "closed"):
            i = int(op[1:])
            if (i < 0 and -i != 1) or (i >= 0 and i != ng - 1):
                stale = True
            if r[0] == "item":
                partial = True
    if stale:
        stats["stale_group_advanced"] += 1
    if partial:
        stats["group_items_taken"] += 1
    viols = []
    if got_side["foreign"]:
        viols.append({"key": "groupby/foreign-suspension", "msg": got_side["foreign"][0]})
    head = f"groupby keys={keys} key={kname} flav={case['flav']} ops={case['ops']}"
    if ref != got:
        d = next((i for i, (a, b) in enumerate(zip(ref, got)) if a != b), min(len(ref), len(got)))
        viols.append({"key": "groupby/operations",
                      "msg": f"{head}: first difference at op {d}: itertools {ref[d] if d < len(ref) else None} vs "
                             f"asyncstdlib {got[d] if d < len(got) else None}"[:900]})
    elif compare_log and case["flav"] != "list":
        # laziness: pulls, end checks and key calls must happen during the same operation, in the same order
        lr, lg = ref_side["log"], got_side["log"]
        lr, skipped = drop_stdlib_repolls(lr, lg)
        stats["stdlib_repolls_of_exhausted_source_skipped"] += skipped
        stats["log_events_compared"] += len(lr)
        if lr != lg:
            d = next((i for i, (a, b) in enumerate(zip(lr, lg)) if a != b), min(len(lr), len(lg)))
            viols.append({"key": "groupby/pull-and-key-call-order",
                          "msg": f"{head}: event logs differ at {d}: itertools {lr[max(0, d - 3):d + 2]} vs asyncstdlib "
                                 f"{lg[max(0, d - 3):d + 2]}"[:900]})
    return {"violations": viols, "nontrivial": stale or partial,
            "sig": (str(keys), kname, str(case["ops"]), case["flav"], case.get("susp", 0))}


def finish(stats, tier):
    for need in ("stale_group_advanced", "group_items_taken"):
        if not stats.get(need):
            return f"deciding counter {need} is zero"
    return None
