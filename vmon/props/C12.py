"""C12 — cached_property computes once, serves one value to all, recomputes after del."""
from __future__ import annotations

import itertools
import random
from collections import Counter

import asyncstdlib as A

from ..loop import CTX, Driver, Suspend, rr_strategy, drive
from ..probes import VLock, PLANNED, PLANNED_NAMES, Planned, PlannedAbort, PLANNED_ANY
from ..sched import explore

# (what user code fails with: also a BaseException that is no Exception - a failure like any other)
PLANNED = dict(PLANNED, Abort=PlannedAbort)
PLANNED_NAMES = list(PLANNED_NAMES) + ["Abort", "Abort"]

ID = "C12"
LEVEL = "exploration"
ANCHORS = ["functools.py"]
RULE = ("(sequential) ALL operation sequences of length <= 5 (thorough: 6) over {await, take placeholder, await newest "
        "/ oldest taken handle, del, make next getter run fail, await on a second instance}, plus random ones up to "
        "length 15, checked after every operation against a slot machine {absent, placeholder, value}: getter runs "
        "iff no value is cached at the await, the cached value is returned, a failed run caches nothing, del makes "
        "the next access recompute (AttributeError when nothing is stored), instances independent; with and without "
        "a lock type. (concurrent) 2..4 awaiting tasks (direct and via a stored placeholder), getter suspending 1..2 "
        "times and failing per plan, optional deleting task, one task cancelled at each of its suspension points; ALL "
        "interleavings by DFS for 2..3 tasks x 1 suspension, random/PCT beyond. With a lock: two getter runs on one "
        "instance never overlap and a run never follows a successful one unless a del lies between their starts; "
        "every awaiter returns a value that was cached at some moment of its await; locks free and no deadlock after "
        "failures/cancellation. Without a lock: every awaiter gets the value of some successful run and after "
        "quiescence accesses are served from the cache (the last stored value) without running the getter. "
        "one evaluation = one history / one executed schedule; distinct = history or (scenario, trace)")
RULE += (" Also: planned failures of every standard exception type (KeyError, AttributeError, ...), falsy exception instances, falsy property values (None, 0, False, '') in sequential histories; falsy lock objects.")
RULE += (' Also: host instances are falsy and report len() == 0.')
RULE += (' Also: a lock type whose instances share one non-re-entrant lock; opaque property values.')
RULE += (' Also: property values that happen to be awaitable.')
RULE += (' Also: frozen hosts (__setattr__ raises).')
RULE += (' Also: probe locks offer locked().')
RULE += (" Also: deletion by replacing the instance's __dict__.")
RULE += (' Also: a subclass overriding the cached property and awaiting super().p.')
RULE += (' Also: one property object that is an attribute (same name) of two unrelated classes.')
RULE += (' Also: instances of a subclass that merely inherits the property (placeholders awaited after a deletion included).')
RULE += (' Also: getters failing with a BaseException that is no Exception.')
RULE += (' Also: host classes with customised attribute reads (__getattribute__ handing out stand-ins).')
RULE += (' Also: hosts inheriting from a base that declares __slots__ = () (abc.ABC, Generic) while having a __dict__ of their own.')
RULE += (' Also: under a real asyncio loop one pending placeholder handed to several tasks (ensure_future / gather / await), one of them cancelled.')
ASSUMPTIONS = ["awaiting a handle taken while a value was cached returns that value (unspecified after del; accepted)",
               "the getter's own suspensions are the only scheduling points besides lock waits"]
EXHAUSTIVE_SUBSPACES = 'all operation sequences of length <= 5 (thorough: 6) over 7 operations; DFS-complete schedule sets for the scenarios counted in scenarios_explored_exhaustively'
EXHAUSTIVE = {"quick": False, "thorough": False}
N_SEQ_RANDOM = {"quick": 20000, "thorough": 500000}
N_SCEN = {"quick": 800, "thorough": 12000}
DFS_LIMIT = {"quick": 1200, "thorough": 30000}
RANDOM_RUNS = {"quick": 50, "thorough": 300}
SEQ_OPS = ["await0", "take0", "awaith_new", "awaith_old", "del0", "failnext", "await1", "temp"]


def cases(tier, seed, shard, nshards):
    idx = 0
    if shard == 0:
        for base_lock in (False, True):
            for child_lock in (False, True):
                for susp in (0, 1):
                    yield {"kind": "override", "base_lock": base_lock, "child_lock": child_lock, "susp": susp}
    if shard == 0:
        for lock in (False, True):
            for cancel in ("none", "first", "second", "third"):
                for how in ("ensure_future", "gather", "plain_await"):
                    yield {"kind": "asyncio_tasks", "lock": lock, "cancel": cancel, "how": how}
    maxlen = 5 if tier == "quick" else 6
    for n in range(1, maxlen + 1):
        for ops in itertools.product(SEQ_OPS, repeat=n):
            idx += 1
            if idx % nshards == shard:
                yield {"kind": "seq", "ops": list(ops), "lock": (idx // nshards) % 2 == 0,
                       "exc": PLANNED_NAMES[(idx // (2 * nshards)) % len(PLANNED_NAMES)],
                       "falsy": [None, "none", "zero", None, "false", "empty", "opaque", "awaitable"][(idx // nshards) % 8]}
    rng = random.Random(f"C12-{seed}-{shard}")
    for _ in range(N_SEQ_RANDOM[tier] // nshards):
        yield {"kind": "seq", "ops": [rng.choice(SEQ_OPS) for _ in range(rng.randint(6, 15))], "lock": rng.random() < 0.5,
               # (a host class whose attribute READS are customised: the property keeps reading its own state from
               # the instance's __dict__, not through the class's attribute access)
               "traced_reads": rng.random() < 0.2, "slotted_base": rng.random() < 0.25, "inherited": rng.random() < 0.3, "shared_prop": rng.random() < 0.2,
               "exc": rng.choice(PLANNED_NAMES), "falsy": rng.choice([None, None, "none", "zero", "false", "empty", "opaque", "awaitable"])}
    n = max(1, N_SCEN[tier] // nshards)
    for i in range(n):
        mode = ["dfs", "random", "pct", "dfs"][i % 4]
        if mode == "dfs":
            nt, susp = rng.choice([2, 2, 3]), 1
        else:
            nt, susp = rng.choice([2, 3, 4]), rng.choice([1, 2])
        yield {"kind": "conc", "mode": mode, "lock": rng.random() < 0.65, "awaiters": [rng.choice(["direct", "direct", "stored"]) for _ in range(nt)],
               "repeat": rng.choice([1, 1, 2]) if mode != "dfs" else 1,
               "susp": susp, "fail": sorted(rng.sample(range(1, 5), rng.choice([0, 0, 1, 2]))),
               "deleter": rng.choice([None, None, 0, 1, 2, 3]) if mode != "dfs" else rng.choice([None, None, 0, 1]),
               "deleter_how": rng.choice(["del", "del", "swap"]),
               "cancel_task": rng.randrange(nt) if rng.random() < 0.4 else None,
               "lock_susp": rng.choice([[0, 0], [0, 0], [1, 0], [0, 1]]),
               "runs": DFS_LIMIT[tier] if mode == "dfs" else RANDOM_RUNS[tier], "seed": rng.randrange(1 << 30),
               "exc": rng.choice(PLANNED_NAMES), "global_lock": rng.random() < 0.3, "traced_reads": rng.random() < 0.15,
               "slotted_base": rng.random() < 0.2, "inherited": rng.random() < 0.3, "shared_prop": rng.random() < 0.2}


from ..tools import Opaque, AwaitablePayload  # noqa: E402

AWAITABLE_VALUE = AwaitablePayload("value")  # a property value that happens to be awaitable: payload, never awaited
OPAQUE = Opaque("value")  # a property value that refuses to be inspected (no truth value, equality, hash)


class _SlottedBase:
    """A base class that declares ``__slots__ = ()`` (like ``abc.ABC``, ``typing.Generic`` and protocols do): a subclass
    that declares no slots of its own has an ordinary ``__dict__`` - and is an ordinary host for a cached property."""
    __slots__ = ()


class _Traced:
    """What a host with traced attribute reads hands out for an awaitable attribute: a transparent stand-in."""

    def __init__(self, inner):
        self.inner = inner

    def __await__(self):
        return self.inner.__await__()


def _traced_reads(self, name):
    # a host class that customises attribute READS (tracing, access control, lazy proxies): whoever reads ``inst.p`` -
    # the user or anybody else going through attribute access - gets a stand-in, never the raw entry of __dict__
    value = object.__getattribute__(self, name)
    if name == "p" and hasattr(type(value), "__await__"):
        return _Traced(value)
    return value


def _planned(case):
    return PLANNED[case.get("exc", "Exception")]


# ---------------------------------------------------------------------------
# sequential slot machine
# ---------------------------------------------------------------------------

def run_seq(case, stats):
    CTX.reset()
    state = {"runs": 0, "fail": False}

    async def getter(self):
        state["runs"] += 1
        rid = state["runs"]
        if state["fail"]:
            state["fail"] = False
            raise _planned(case)(rid)
        return val(self.tag, rid)

    def val(tag, rid):
        # the first instance's property may evaluate to None or another falsy value: cached like any other
        if tag == 0 and case.get("falsy") is not None:
            return {"none": None, "zero": 0, "false": False, "empty": "", "opaque": OPAQUE, "awaitable": AWAITABLE_VALUE}[case["falsy"]]
        return ("val", tag, rid)

    if case["lock"]:
        prop = A.cached_property(VLock)(getter)
    else:
        prop = A.cached_property(getter)
    # the instances are container-like and currently empty: they test false and have length zero (an instance is
    # "absent" only when it IS None, i.e. on access through the class)
    def _frozen(self, name, value):
        # the hosts are "frozen" like a frozen dataclass: the property keeps its value in the instance's __dict__,
        # as functools.cached_property does, and never goes through the class's attribute assignment
        raise AttributeError(f"cannot assign to field {name!r}")

    if case.get("shared_prop"):
        # the very same property object is ALSO an attribute (same name) of an unrelated class, bound there first
        type("Elsewhere", (), {"p": prop})
    K = type("K", (_SlottedBase,) if case.get("slotted_base") else (), {"p": prop, "__init__": lambda self, tag: self.__dict__.__setitem__("tag", tag),
                       "__bool__": lambda self: False, "__len__": lambda self: 0, "__setattr__": _frozen,
                       **({"__getattribute__": _traced_reads} if case.get("traced_reads") else {})})
    prop.__set_name__(K, "p")
    if case.get("inherited"):
        # the instances belong to a SUBCLASS that only inherits the property (nothing named "p" in its own namespace)
        K = type("KSub", (K,), {})
    inst = [K(0), K(1)]
    slot = ["absent", "absent"]  # "absent" | "placeholder" | ("value", v)
    handles = []  # (instance, kind, value-or-None, object)
    viols = []
    head = f"cached_property lock={case['lock']} ops={case['ops']}"

    def await_handle(i, kind, hval, obj, n, op):
        runs_before = state["runs"]
        will_fail = state["fail"]
        try:
            res = ("ok", drive(_aw(obj)))
        except PLANNED_ANY:
            res = ("failed",)
        except BaseException as exc:  # noqa: BLE001
            res = ("raise", type(exc).__name__, str(exc)[:60])
        ran = state["runs"] - runs_before
        if kind == "value":
            want, want_ran = ("ok", hval), 0
        elif isinstance(slot[i], tuple):
            want, want_ran = ("ok", slot[i][1]), 0
        else:
            want_ran = 1
            if will_fail:
                want = ("failed",)
                slot[i] = "placeholder"
            else:
                want = ("ok", val(i, runs_before + 1))
                slot[i] = ("value", want[1])
        if res != want or ran != want_ran:
            what = "getter-runs" if ran != want_ran else "value"
            viols.append({"key": f"cached_property/sequential-{what}",
                          "msg": f"{head}: op {n} {op}: got {res} with {ran} getter runs; slot machine expects {want} "
                                 f"with {want_ran} runs"})
            return False
        if ran:
            stats["getter_runs"] += 1
        else:
            stats["served_from_cache"] += 1
        return True

    for n, op in enumerate(case["ops"]):
        if op in ("await0", "await1", "take0"):
            i = 1 if op == "await1" else 0
            obj = inst[i].p
            if isinstance(slot[i], tuple):
                kind, hval = "value", slot[i][1]
            else:
                kind, hval = "ph", None
                slot[i] = "placeholder"
            if op == "take0":
                handles.append((i, kind, hval, obj))
            elif not await_handle(i, kind, hval, obj, n, op):
                break
        elif op in ("awaith_new", "awaith_old"):
            if not handles:
                continue
            i, kind, hval, obj = handles[-1] if op == "awaith_new" else handles[0]
            stats["stale_or_stored_handle_awaits"] += 1
            if not await_handle(i, kind, hval, obj, n, op):
                break
        elif op == "del0":
            try:
                del inst[0].p
                res = "deleted"
            except AttributeError:
                res = "AttributeError"
            want = "AttributeError" if slot[0] == "absent" else "deleted"
            slot[0] = "absent"
            stats["deletions"] += 1
            if res != want:
                viols.append({"key": "cached_property/sequential-del", "msg": f"{head}: op {n}: del gave {res}, expected {want}"})
                break
        elif op == "failnext":
            state["fail"] = True
        elif op == "temp":
            # the property of a temporary: the instance is dropped by its user right after the access, only what the
            # access returned is awaited (``await gather(*(Resource(u).data for u in urls))``)
            fresh = K(2)
            obj = fresh.p
            del fresh
            runs_before, will_fail = state["runs"], state["fail"]
            try:
                res = ("ok", drive(_aw(obj)))
            except PLANNED_ANY:
                res = ("failed",)
            except BaseException as exc:  # noqa: BLE001
                res = ("raise", type(exc).__name__, str(exc)[:60])
            want = ("failed",) if will_fail else ("ok", val(2, runs_before + 1))
            if res != want or state["runs"] != runs_before + 1:
                viols.append({"key": "cached_property/sequential-temporary-instance",
                              "msg": f"{head}: op {n}: awaiting the property of a dropped temporary gave {res} with "
                                     f"{state['runs'] - runs_before} getter runs, expected {want} with 1"})
                break
            stats["temporary_instance_awaits"] += 1
    if CTX.foreign:
        viols.append({"key": "cached_property/foreign-suspension", "msg": CTX.foreign[0]})
    stats["sequential_histories"] += 1
    nontrivial = any(o.startswith("await") for o in case["ops"]) and ("del0" in case["ops"] or "failnext" in case["ops"]
                                                                       or "take0" in case["ops"])
    return {"violations": viols, "nontrivial": nontrivial, "sig": ("seq", case["lock"], tuple(case["ops"]))}


async def _aw(obj):
    return await obj


# ---------------------------------------------------------------------------
# concurrent
# ---------------------------------------------------------------------------

class RegLock(VLock):
    registry = []
    SUSP = (0, 0)  # (before acquiring, after releasing): locks that are scheduling points themselves

    def __init__(self):
        super().__init__(f"cp{len(RegLock.registry)}", susp_enter=RegLock.SUSP[0], susp_exit=RegLock.SUSP[1])
        RegLock.registry.append(self)


class GlobalLock:
    """A lock TYPE whose instances all serialise on one underlying lock ("one expensive fetch at a time", backed
    by a module-level lock): not re-entrant, so nothing may wait for a second instance while holding a first."""
    shared = None

    def __init__(self):
        if GlobalLock.shared is None:
            GlobalLock.shared = VLock("global", susp_enter=RegLock.SUSP[0], susp_exit=RegLock.SUSP[1])
            RegLock.registry.append(GlobalLock.shared)

    def __bool__(self):
        return False

    def locked(self):
        return GlobalLock.shared.locked()

    async def __aenter__(self):
        await GlobalLock.shared.__aenter__()
        return self

    async def __aexit__(self, *exc):
        return await GlobalLock.shared.__aexit__(*exc)


def execute(case, choose, cancel_at=None):
    CTX.reset()
    RegLock.registry = []
    GlobalLock.shared = None
    RegLock.SUSP = tuple(case.get("lock_susp", (0, 0)))
    clock = {"t": 0}
    runs = {}  # rid -> dict(start, end, outcome, value)
    dels = []
    state = {"runs": 0, "active": 0, "max_active": 0}
    fail = set(case["fail"])
    viols = []

    def tick():
        clock["t"] += 1
        return clock["t"]

    async def getter(self):
        state["runs"] += 1
        rid = state["runs"]
        runs[rid] = {"start": tick(), "end": None, "outcome": "running", "value": None}
        state["active"] += 1
        state["max_active"] = max(state["max_active"], state["active"])
        try:
            await Suspend(("getter", rid), case["susp"])
            if rid in fail:
                runs[rid].update(end=tick(), outcome="failed")
                raise _planned(case)(rid)
            value = ("val", rid)
            runs[rid].update(end=tick(), outcome="ok", value=value)
            return value
        except BaseException:
            if runs[rid]["end"] is None:
                runs[rid].update(end=tick(), outcome="cancelled")
            raise
        finally:
            state["active"] -= 1

    lock_type = GlobalLock if case.get("global_lock") else RegLock
    prop = A.cached_property(lock_type)(getter) if case["lock"] else A.cached_property(getter)
    def _frozen(self, name, value):
        raise AttributeError(f"cannot assign to field {name!r}")

    if case.get("shared_prop"):
        type("Elsewhere", (), {"p": prop})
    K = type("K", (_SlottedBase,) if case.get("slotted_base") else (), {"p": prop, "__bool__": lambda self: False, "__len__": lambda self: 0, "__setattr__": _frozen,
                       **({"__getattribute__": _traced_reads} if case.get("traced_reads") else {})})
    prop.__set_name__(K, "p")
    if case.get("inherited"):
        K = type("KSub", (K,), {})
    inst = K()
    stored = inst.p if "stored" in case["awaiters"] else None
    awaits = []  # (task, t0, t1, result)

    async def awaiter(t, how):
        for _ in range(case.get("repeat", 1)):
            t0 = tick()
            try:
                v = await (stored if how == "stored" else inst.p)
            except PLANNED_ANY:
                awaits.append((t, t0, tick(), ("failed",)))
                continue
            awaits.append((t, t0, tick(), ("ok", v)))

    async def deleter(k):
        if k:
            await Suspend("deleter", k)
        if case.get("deleter_how") == "swap":
            # the whole attribute dictionary is REPLACED (a reset(): ``self.__dict__ = {}``): every cached attribute is
            # gone - a deletion like any other, also for placeholders handed out before
            had = "p" in vars(inst)
            object.__setattr__(inst, "__dict__", {})
            if had:
                dels.append(tick())
            return
        try:
            del inst.p
            dels.append(tick())
        except AttributeError:
            pass

    driver = Driver(choose)
    c2 = case.get("cancel2")  # a second awaiter cancelled as well (a task group going down): [task, at its k-th resume]
    tasks = [driver.spawn(f"a{t}", awaiter(t, how),
                          cancel_at=cancel_at if t == case.get("cancel_task") else c2[1] if c2 and t == c2[0] else None)
             for t, how in enumerate(case["awaiters"])]
    if case.get("deleter") is not None:
        driver.spawn("deleter", deleter(case["deleter"]))
    driver.run()
    info = {"trace": tuple(driver.trace), "choice_points": driver.choice_points, "suspensions": [t.resumes for t in tasks],
            "getter_runs": len(runs), "contended": sum(l.contended for l in RegLock.registry)}
    if driver.deadlock:
        viols.append(("cached_property/deadlock", f"unfinished: {[t.name for t in driver.tasks if not t.done]}"))
    for t in driver.tasks:
        if t.exc is not None:
            if t.cancel_exc is not None and t.exc is t.cancel_exc:
                info["cancelled"] = True
            else:
                viols.append(("cached_property/task-raised", f"{t.name} ended with {type(t.exc).__name__}: {t.exc}"))
    for lock in RegLock.registry:
        if lock.owner is not None and not driver.deadlock:
            viols.append(("cached_property/lock-held-at-end", f"{lock.name} owned by {lock.owner}"))
    ok_values = {r["value"] for r in runs.values() if r["outcome"] == "ok"}
    # cached value timeline: (time, value or None)
    timeline = sorted([(r["end"], r["value"]) for r in runs.values() if r["outcome"] == "ok"] + [(d, None) for d in dels])
    for t, t0, t1, res in awaits:
        if res[0] != "ok":
            continue
        v = res[1]
        if v not in ok_values:
            viols.append(("cached_property/foreign-value", f"awaiter {t} received {v!r}, successful runs produced {ok_values}"))
            continue
        if case["lock"]:
            # v must have been the cached value at some moment within [t0, t1]
            cached_at_t0 = None
            for when, val in timeline:
                if when <= t0:
                    cached_at_t0 = val
            candidates = {cached_at_t0} | {val for when, val in timeline if t0 <= when <= t1}
            if v not in candidates:
                viols.append(("cached_property/value-not-cached-during-await",
                              f"awaiter {t} over [{t0},{t1}] received {v!r}; cached values during that interval: {candidates}"))
    if case["lock"]:
        order = sorted(runs.items(), key=lambda kv: kv[1]["start"])
        for (r1, a), (r2, b) in itertools.combinations(order, 2):
            overlap = a["end"] is None or b["start"] < a["end"]
            if a["outcome"] == "ok" or overlap:
                if not any(a["start"] < d < b["start"] for d in dels):
                    why = "overlap" if overlap else "second-run-after-success"
                    viols.append((f"cached_property/locked-getter-{why}",
                                  f"runs {r1}{a} and {r2}{b} without a del between their starts (dels at {dels})"))
    # quiescence: served from cache
    if not driver.deadlock and ok_values:
        before = state["runs"]
        fail.clear()
        last_ok = max((r for r in runs.values() if r["outcome"] == "ok"), key=lambda r: r["end"])
        deleted_after = any(d > last_ok["end"] for d in dels)
        pending_fail = False
        try:
            v1 = drive(_aw(inst.p))
            v2 = drive(_aw(inst.p))
        except BaseException as exc:  # noqa: BLE001
            viols.append(("cached_property/quiescent-access-raised", f"{type(exc).__name__}: {exc}"))
        else:
            if v1 != v2:
                viols.append(("cached_property/quiescent-values-differ", f"{v1!r} then {v2!r}"))
            if not deleted_after:
                if state["runs"] != before:
                    viols.append(("cached_property/quiescent-getter-ran",
                                  f"a value was stored (last successful run {last_ok}) yet a later access ran the getter"))
                elif v1 != last_ok["value"] and not case["lock"]:
                    viols.append(("cached_property/quiescent-not-last-stored",
                                  f"served {v1!r}, last stored value was {last_ok['value']!r}"))
                elif v1 not in ok_values:
                    viols.append(("cached_property/quiescent-foreign-value", f"served {v1!r}"))
    if CTX.foreign:
        viols.append(("cached_property/foreign-suspension", CTX.foreign[0]))
    info["max_active"] = state["max_active"]
    return viols, info


def run_conc(case, stats):
    viols_out = {}
    traces = set()
    evals = 0
    cancel_points = [None]
    if case.get("cancel_task") is not None:
        _, info = execute(case, rr_strategy())
        cancel_points = list(range(1, info["suspensions"][case["cancel_task"]] + 1)) or [None]
    ntasks = len(case["awaiters"]) + (case.get("deleter") is not None)
    for cancel_at in cancel_points:
        runs = case["runs"] if cancel_at is None else max(20, case["runs"] // len(cancel_points))

        def exe(choose, cancel_at=cancel_at):
            return execute(case, choose, cancel_at)

        for res, mode, exh in explore(exe, case["mode"], case["seed"], runs, ntasks):
            if res is None:
                stats["scenarios_explored_exhaustively" if exh else "dfs_budget_hit"] += 1
                continue
            viols, info = res
            evals += 1
            traces.add((cancel_at, info["trace"]))
            stats["executions"] += 1
            stats["choice_points"] += info["choice_points"]
            stats["contended_lock_acquisitions"] += info["contended"]
            stats["concurrent_getter_runs"] += info["getter_runs"]
            if info["max_active"] > 1:
                stats["runs_with_overlapping_getters"] += 1
            if info.get("cancelled"):
                stats["cancelled_runs"] += 1
            for key, msg in viols:
                if key not in viols_out:
                    viols_out[key] = {"key": key, "msg": f"cached_property scenario {dict(case, runs=None)} "
                                                         f"cancel_at={cancel_at} trace={list(info['trace'])}: {msg}"[:1400],
                                      "detail": {"trace": list(info["trace"]), "cancel_at": cancel_at}}
    stats["distinct_schedules"] += len(traces)
    return {"violations": list(viols_out.values()), "evals": max(1, evals), "distinct": len(traces),
            "sample": dict(case, example_schedule=[list(map(str, t)) for t in list(traces)[:1]])}


def run_override(case, stats):
    """A subclass OVERRIDES the cached property and builds on the parent's value (``await super().p``): two descriptors
    share one attribute name on the instance.  Each getter still runs once per cached value, the value is the child's,
    deletion recomputes, instances stay apart - and nothing recurses or blocks."""
    from ..loop import Driver, rr_strategy
    CTX.reset()
    RegLock.registry.clear()
    runs = Counter()

    def deco(fn, lock):
        return A.cached_property(RegLock)(fn) if lock else A.cached_property(fn)

    async def base_p(self):
        runs["base"] += 1
        if case["susp"]:
            await Suspend(("base", runs["base"]), 1)
        return ("base", runs["base"])

    async def child_p(self):
        runs["child"] += 1
        inner = await super(Child, self).p
        if case["susp"]:
            await Suspend(("child", runs["child"]), 1)
        return ("child", inner, runs["child"])

    Base = type("Base", (), {"p": deco(base_p, case["base_lock"])})
    Base.p.__set_name__(Base, "p")
    Child = type("Child", (Base,), {"p": deco(child_p, case["child_lock"])})
    Child.p.__set_name__(Child, "p")
    out = []

    async def main():
        a, b = Child(), Child()
        out.append(await a.p)
        out.append(await a.p)
        out.append(await b.p)
        del a.p
        out.append(await a.p)
        out.append(await b.p)

    viols = []
    driver = Driver(rr_strategy())
    task = driver.spawn("main", main())
    try:
        driver.run()
    except RecursionError as exc:
        viols.append({"key": "cached_property/override-recursion", "msg": f"overridden cached property {case}: {exc!r}"})
    if driver.deadlock or not task.done:
        viols.append({"key": "cached_property/deadlock", "msg": f"overridden cached property {case}: never finished, got {out}"})
    elif task.exc is not None:
        viols.append({"key": "cached_property/override-raised", "msg": f"overridden cached property {case}: {task.exc!r}"})
    else:
        want = [("child", ("base", 1), 1), ("child", ("base", 1), 1), ("child", ("base", 2), 2), ("child", ("base", 3), 3),
                ("child", ("base", 2), 2)]
        if out != want:
            viols.append({"key": "cached_property/override-values",
                          "msg": f"overridden cached property {case}: awaits gave {out}, expected {want}"})
    if CTX.foreign:
        viols.append({"key": "cached_property/foreign-suspension", "msg": CTX.foreign[0]})
    stats["overridden_property_runs"] += 1
    return {"violations": viols, "evals": 1, "distinct": 1, "nontrivial": True, "sig": ("override", str(case)),
            "sample": dict(case)}


def run_asyncio_tasks(case, stats):
    """Under a real asyncio loop: ONE placeholder (``p = host.data``, not yet computed) is handed to several tasks the way
    asyncio users do it - ``ensure_future(p)`` / ``gather(p, p, p)`` / ``await p`` inside tasks - and one of the tasks is
    cancelled while the getter waits.  The placeholder is an awaitable like any other: every task that was not cancelled
    receives the value; a cancelled task takes nobody else down with it."""
    import asyncio

    runs = []

    async def main():
        loop = asyncio.get_running_loop()
        gates = []

        async def getter(self):
            runs.append(len(runs) + 1)
            gate = loop.create_future()  # (a gate of its own per run: a task's cancellation cancels what IT waits for)
            gates.append(gate)
            await gate
            return ("value", 42)

        prop = A.cached_property(asyncio.Lock)(getter) if case["lock"] else A.cached_property(getter)
        Host = type("Host", (), {"data": prop})
        prop.__set_name__(Host, "data")
        host = Host()
        p = host.data

        async def plain(aw):
            return await aw

        if case["how"] == "plain_await":
            tasks = [asyncio.ensure_future(plain(p)) for _ in range(3)]
        else:
            tasks = [asyncio.ensure_future(p) for _ in range(3)]
        for _ in range(3):
            await asyncio.sleep(0)
        victim = {"none": None, "first": 0, "second": 1, "third": 2}[case["cancel"]]
        if victim is not None:
            tasks[victim].cancel()
        for _ in range(40):
            await asyncio.sleep(0)
            for gate in gates:
                if not gate.done():
                    gate.set_result(None)
            if all(t.done() for t in tasks):
                break
        if case["how"] == "gather":
            results = await asyncio.gather(*tasks, return_exceptions=True)
        else:
            results = []
            for t in tasks:
                try:
                    results.append(await t)
                except BaseException as exc:  # noqa: BLE001
                    results.append(exc)
        later = await host.data
        return victim, results, later

    viols = []
    try:
        victim, results, later = asyncio.run(asyncio.wait_for(main(), 20))
        shown = [r if not isinstance(r, BaseException) else type(r).__name__ for r in results]
        for i, r in enumerate(results):
            if i == victim:
                if not isinstance(r, asyncio.CancelledError):
                    viols.append({"key": "cached_property/asyncio-task-results", "msg": f"{case}: the cancelled task {i} ended with {shown[i]!r}"})
            elif r != ("value", 42):
                viols.append({"key": "cached_property/asyncio-task-results",
                              "msg": f"{case}: task {i} (not cancelled) ended with {shown[i]!r}; all tasks: {shown}; getter runs: {len(runs)}"})
        if later != ("value", 42):
            viols.append({"key": "cached_property/asyncio-task-results", "msg": f"{case}: a later access gave {later!r}"})
        if case["lock"] and victim is None and len(runs) != 1:
            viols.append({"key": "cached_property/asyncio-task-results", "msg": f"{case}: with a lock and no cancellation the getter ran {len(runs)} times"})
    except BaseException as exc:  # noqa: BLE001
        viols.append({"key": "cached_property/asyncio-task-results", "msg": f"{case}: the scenario ended with {type(exc).__name__}: {exc}"})
    stats["asyncio_task_scenarios"] += 1
    return {"violations": viols[:1], "nontrivial": True, "sig": ("asyncio_tasks", str(case))}


def run_case(case, stats: Counter):
    if case["kind"] == "asyncio_tasks":
        return run_asyncio_tasks(case, stats)
    if case["kind"] == "override":
        return run_override(case, stats)
    if case["kind"] == "seq":
        return run_seq(case, stats)
    return run_conc(case, stats)


def finish(stats, tier):
    for need in ("sequential_histories", "getter_runs", "served_from_cache", "deletions", "stale_or_stored_handle_awaits",
                 "executions", "contended_lock_acquisitions", "cancelled_runs", "runs_with_overlapping_getters",
                 "scenarios_explored_exhaustively"):
        if not stats.get(need):
            return f"deciding counter {need} is zero"
    return None
