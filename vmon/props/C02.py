"""C02 — aggregations return the stdlib result and never alter their inputs."""
from __future__ import annotations

import random
from collections import Counter

from .. import gen
from ..probes import canon
from ..tools import run_sync_side, run_async_side, decode_param, decode

ID = "C02"
LEVEL = "exploration"
ANCHORS = ["builtins.py", "functools.py", "heapq.py"]
RULE = ("differential run of all/any/sum/min/max/list/tuple/set/dict/sorted/reduce/nlargest/nsmallest against the "
        "builtin / functools / heapq twin: canonical return value incl. identity of selected Items (uid), exception "
        "type, snapshots of start/default/initial and of list inputs before and after, and the key call log (must not "
        "contain the default); inputs: tie-heavy Items, mixed exact numerics, inexact floats, nan, unorderable and "
        "unhashable members, list-of-lists with list start, str start; key absent/def/async def, reverse, default, "
        "n in 0..len+2; input as list, one-shot sync iterator, async iterator; non-trivial = non-empty input with a "
        "tie, a raising twin, or an option (key/default/start/initial/reverse/n); distinct = spec+flavours")
RULE += (" Also: items whose comparison fails with ValueError/KeyError/AttributeError/LookupError/RuntimeError (one failure type per input); inf/-inf/1e308/-0.0 among floats; None/falsy reduction results; a deviation is attributed to a recorded finding only if it shows exactly that finding's mechanism.")
RULE += (' Also: keys undefined for some items (neg / half over mixed raw items) or failing for every item, one-item inputs, for min/max/sorted/nlargest/nsmallest.')
RULE += (' Also: dict elements that are unsized one-shot iterators / generators.')
RULE += (' Also: values ordered by < alone (no __eq__): ties neither smaller nor equal.')
RULE += (' Also: tuple / list subclass instances as inputs; exact result types compared.')
RULE += (' Also: awaitable and look-alike values as default / fill value / initial value (handed back or passed on as they are).')
RULE += (" Also: after the call the caller's synchronous one-shot iterator still yields everything the aggregation did not take.")
RULE += (' Also: defaults equal to everything / refusing comparison.')
RULE += (' Also: key functions giving equal / identical keys that cannot be ordered.')
RULE += (' Also: a class-based source that reports its remaining length.')
RULE += (' Also: values equal across types (1, 1.0, True) under a key that tells them apart.')
RULE += (' Also: sums whose running total becomes text along the way (reflected additions answering with str).')
ASSUMPTIONS = ["builtins/functools/heapq of the running interpreter (3.12) are the reference, incl. compensated float sum"]
EXHAUSTIVE = {"quick": False, "thorough": False}
N_RANDOM = {"quick": 150000, "thorough": 8000000}
FLAVS = ["list", "sync_iter", "async_class", "async_gen", "tuple", "sync_gen", "getitem_seq", "async_iterable", "sync_iterable", "tuple_sub", "list_sub", "async_class_sized"]
FNFL = ["def", "async_def", "callobj"]


def cases(tier, seed, shard, nshards):
    rng = random.Random(f"C02-{seed}-{shard}")
    n = N_RANDOM[tier] // nshards
    for i in range(n):
        name = gen.AGG_NAMES[i % len(gen.AGG_NAMES)]
        spec = gen.agg_spec(rng, name)
        yield {"spec": spec, "flav": rng.choice(FLAVS), "fnfl": rng.choice(FNFL)}


def _is_float_sum(spec):
    if spec["tool"] != "sum" or not spec.get("raw"):
        return False
    vals = spec["srcs"][0] + ([spec["params"]["start"][1]] if "start" in spec["params"] else [])
    return any(isinstance(v, float) or (isinstance(v, list) and v and v[0] == "f") for v in vals)


def _naive_float_sum(spec):
    """What plain left-to-right addition gives (the mechanism of the recorded finding): canonical form, or None."""
    from ..probes import canon
    try:
        total = decode_param(spec["params"]["start"]) if "start" in spec["params"] else 0
        for v in spec["srcs"][0]:
            total = total + decode(v)
        return canon(total)
    except Exception:  # noqa: BLE001
        return None


def classify(spec, case, sync, asy, what):
    tool = spec["tool"]
    if what == "mutated":
        return f"{tool}/mutates-argument"
    if what == "default-to-key":
        return f"{tool}/default-passed-to-key"
    st, at = sync.term, asy.term
    if tool == "max" and st[0] == "ret" and at[0] == "ret":
        return "max/tie-or-unordered-picks-later-element"
    if tool in ("nlargest", "nsmallest") and st[0] == "ret" and at[0] == "ret" and \
            sorted(map(repr, st[1][1:])) == sorted(map(repr, at[1][1:])):
        return f"{tool}/tie-order"
    if tool == "sorted" and not (spec["fns"] and spec["fns"][0]) and st[0] == "raise" and st[1] == "TypeError" \
            and at[0] == "ret" and case["flav"] not in ("list", "tuple"):
        return "sorted/fastpath-swallows-TypeError"
    if tool == "sum" and st[0] == "ret" and at[0] == "ret" and _is_float_sum(spec) and tuple(at[1:2]) == (_naive_float_sum(spec),):
        # exactly the recorded mechanism: the result IS the uncompensated left-to-right sum.  Any other float
        # deviation (a NaN where the builtin has inf, a lost sign of zero, ...) is a violation of its own
        return "sum/float-not-compensated"
    if tool == "sum" and st[0] == "raise" and st[1] == "TypeError" and at[0] == "ret" and \
            isinstance(decode_param(spec["params"].get("start", ["raw", 0])), str):
        return "sum/str-start-accepted"
    if st[0] != at[0]:
        return f"{tool}/{st[0]}-vs-{at[0]}"
    if st[0] == "raise":
        return f"{tool}/exception-type"
    return f"{tool}/value"


def run_case(case, stats: Counter):
    spec = case["spec"]
    tool = spec["tool"]
    flav = case["flav"]
    nfn = len(spec.get("fns", []))
    sync = run_sync_side(spec, log=True)
    asy = run_async_side(spec, flavours=[flav], fn_flavours=[case.get("fnfl", "def")] * nfn, log=True)
    stats[f"runs_{tool}"] += 1
    tie = gen.has_tie(spec)
    if tie:
        stats[f"ties_{tool}"] += 1
    if sync.term[0] == "raise":
        stats["stdlib_raised"] += 1
        stats[f"stdlib_raised_{flav}"] += 1
    if not spec["srcs"][0]:
        stats["empty_inputs"] += 1
        if "default" in spec["params"] and spec["fns"] and spec["fns"][0]:
            stats["empty_default_key"] += 1
    viols = []
    if asy.foreign:
        viols.append({"key": f"{tool}/foreign-suspension", "msg": asy.foreign[0]})
    st = tuple(sync.term[:2])
    at = tuple(asy.term[:2])
    head = f"{tool} {spec['params']} fns={spec.get('fns')} src={spec['srcs'][0]} flav={flav}"
    if st == at and st[0] == "ret" and sync.rtype != asy.rtype:
        viols.append({"key": f"{tool}/result-type",
                      "msg": f"{head}: the result is a {asy.rtype}, the builtin's a {sync.rtype}"})
    if st != at:
        viols.append({"key": classify(spec, case, sync, asy, "result"),
                      "msg": f"{head}: stdlib {st} vs asyncstdlib {at}", "detail": {"expected": st, "got": at}})
    if asy.inputs_before != {k: v for k, v in (asy.inputs_after or {}).items() if k not in ("mutated_list", "elements")} \
            or (asy.inputs_after or {}).get("mutated_list"):
        if sync.inputs_before == sync.inputs_after:
            viols.append({"key": classify(spec, case, sync, asy, "mutated"),
                          "msg": f"{head}: argument object changed by the call: {asy.inputs_before} -> {asy.inputs_after}"})
    if flav in ("sync_gen", "sync_iter") and asy.sources and st == at:
        # a one-shot synchronous iterator the caller keeps: whatever the aggregation did not take is still there
        # (an aggregation that stops early - a short circuit, a failing comparison - does not close the caller's generator)
        src_state = asy.srcs[0]
        want_rest = [canon(x) for x in src_state.items[src_state.pos:]]
        try:
            got_rest = [canon(x) for x in asy.sources[0]]
        except BaseException as exc:  # noqa: BLE001
            got_rest = repr(exc)
        stats["remaining_input_probed"] += 1
        if want_rest:
            stats["remaining_input_nonempty"] += 1
        if got_rest != want_rest:
            viols.append({"key": f"{tool}/rest-of-the-input-iterator-lost",
                          "msg": f"{head}: after the call the caller's iterator gives {got_rest}, {len(want_rest)} unconsumed items were expected"})
    if "default" in spec["params"]:
        dflt = canon(asy.params["default"])
        hit_a = any(e[0] == "call" and dflt in e[2][1:] for e in asy.log)
        hit_s = any(e[0] == "call" and canon(sync.params["default"]) in e[2][1:] for e in sync.log)
        stats["default_cases"] += 1
        if hit_a and not hit_s:
            viols.append({"key": classify(spec, case, sync, asy, "default-to-key"),
                          "msg": f"{head}: key was called with the default"})
    nontrivial = bool(spec["srcs"][0]) and (tie or sync.term[0] == "raise" or bool(spec["params"]) or
                                             bool(spec.get("fns") and spec["fns"][0]))
    return {"violations": viols, "nontrivial": nontrivial, "sig": (spec, flav, case.get("fnfl"))}


def finish(stats, tier):
    for need in ("ties_min", "ties_max", "ties_sorted", "ties_nlargest", "ties_nsmallest", "stdlib_raised_sync_iter",
                 "stdlib_raised_async_class", "empty_default_key", "default_cases", "remaining_input_nonempty"):
        if not stats.get(need):
            return f"deciding counter {need} is zero"
    return None
