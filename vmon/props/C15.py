"""C15 — context managers as decorators wrap every call in a fresh, paired context."""
from __future__ import annotations

import random
from collections import Counter

import asyncstdlib as A

from ..loop import CTX, Cancel, Driver, Suspend, rr_strategy
from ..probes import PLANNED, PLANNED_NAMES, Planned
from ..sched import explore

ID = "C15"
LEVEL = "exploration"
ANCHORS = ["contextlib.py"]
RULE = ("a coroutine function decorated with (a) a contextmanager-built manager and (b) a ContextDecorator subclass is "
        "called 1..5 times sequentially per task by 1..3 concurrent tasks, with suspension points in enter, body and "
        "exit; bodies return, raise or are cancelled at EACH suspension point; suppressing and non-suppressing "
        "managers; ALL interleavings by DFS for 2 tasks (and 3 tasks with single suspensions), random/PCT beyond. "
        "Trace specification per call (events tagged with the running task and the generator instance): exactly one "
        "enter, then the body, then one exit receiving the body's exception object (or None); the call returns the "
        "body's result or raises its exception unless suppressed; generator-based managers use a distinct generator "
        "per call; a cancellation is attributed to the phase that owned the token it was thrown at. "
        "one evaluation = one executed schedule; distinct = (scenario, trace)")
RULE += (' Also: body failures of every standard type incl. instances of Exception/BaseException/StopAsyncIteration themselves and falsy exception instances; contexts translating the failure (raise New from err / implicit / from None); decorated functions with parameters named func/self/args/kwds/cm passed by keyword.')
RULE += (' Also: class managers and lease copies are falsy.')
RULE += (' Also: managers that are awaitable as well (being awaited is reported).')
RULE += (' Also: managers swallowing every BaseException the body raises.')
RULE += (' Also: generator functions of managers defined as methods and taken from the second of two instances.')
RULE += (' Also: decorated functions whose RESULT is an awaitable object (handed to the caller as it is, never awaited by the wrapper).')
RULE += (' Also: bodies raising subclasses of GeneratorExit / StopAsyncIteration.')
RULE += (' Also: the decorated function as a plain function that works when called and returns an awaitable.')
RULE += (" Also: contexts replacing the body's failure by a RuntimeError of their own.")
RULE += (' Also: calls made from inside an except block of the caller.')
RULE += (' Also: exceptions with lenient equality.')
RULE += (' Also: call objects created up-front and started later.')
RULE += (' Also: class-based managers whose exit answers a clean exit with a true value: the result of the call is still handed on.')
RULE += (" Also: bodies ending with a BaseException that is no Exception while the context's clean-up fails with its own exception; class managers whose exit is a staticmethod / classmethod.")
RULE += (' Also: generator managers taking a single coroutine function (a hook) as their argument.')
RULE += (' Also: the _recreate_cm hook as a classmethod or set on the instance.')
RULE += (' Also: decorated methods called through an instance.')
RULE += (' Also: class managers that also spell out (and refuse) the synchronous protocol.')
ASSUMPTIONS = ["class-based ContextDecorator instances are shared between calls (documented default of _recreate_cm)"]
EXHAUSTIVE_SUBSPACES = 'every scenario counted in scenarios_explored_exhaustively had ALL its interleavings executed'
EXHAUSTIVE = {"quick": False, "thorough": False}
N_SCEN = {"quick": 800, "thorough": 30000}
DFS_LIMIT = {"quick": 1500, "thorough": 40000}
RANDOM_RUNS = {"quick": 40, "thorough": 250}


def cases(tier, seed, shard, nshards):
    rng = random.Random(f"C15-{seed}-{shard}")
    n = max(1, N_SCEN[tier] // nshards)
    for i in range(n):
        mode = ["dfs", "random", "pct", "dfs"][i % 4]
        if mode == "dfs":
            nt = rng.choice([2, 2, 3])
            calls = [[rng.choice(["ret", "raise"])] for _ in range(nt)]
            susp = {"enter": rng.choice([0, 1]), "body": 1, "exit": rng.choice([0, 1])} if nt == 2 else \
                   {"enter": 0, "body": 1, "exit": 0}
        else:
            nt = rng.choice([1, 2, 3])
            calls = [[rng.choice(["ret", "ret", "raise"]) for _ in range(rng.randint(1, 5 if nt == 1 else 3))] for _ in range(nt)]
            susp = {"enter": rng.choice([0, 1, 2]), "body": rng.choice([0, 1, 2]), "exit": rng.choice([0, 1, 2])}
        manager = rng.choice(["generator", "generator", "class", "lease"])
        yield {"mode": mode, "manager": manager, "clean_exit_truthy": rng.random() < 0.4, "hook_arg": rng.random() < 0.25, "as_method": rng.random() < 0.2, "recreate_binding": rng.choice(["method", "method", "classmethod", "instance"]), "exit_binding": rng.choice(["method", "method", "static", "class"]), "suppress": rng.choice([False, False, False, True, True, "all"]), "body_kind": rng.choice(["async", "async", "eager"]),
               "direct": rng.random() < 0.25 and manager != "lease",
               "calls": calls, "susp": susp, "cancel_task": rng.randrange(nt) if rng.random() < 0.45 else None,
               "runs": DFS_LIMIT[tier] if mode == "dfs" else RANDOM_RUNS[tier], "seed": rng.randrange(1 << 30),
               "exc": rng.choice(PLANNED_NAMES + ["exact:" + k for k in EXACT]),
               "translate": rng.choice([None, None, "from", "from", "implicit", "from_none"]),
               # ... by an exception of its own that IS a RuntimeError (the type the generator protocol itself uses to
               # report a Stop(Async)Iteration that escaped): still the context's replacement, whatever the chaining
               "translate_runtime": rng.random() < 0.4,
               "while_handling": rng.random() < 0.3,
               "precreate": rng.random() < 0.25, "manager_method": rng.random() < 0.2, "result_job": rng.random() < 0.25}


BodyError = Planned  # the body's failure: one of the PLANNED family, chosen per scenario
class Translated(Exception):
    """What a context raises in place of the body's failure."""


class TranslatedRuntime(Translated, RuntimeError):
    pass


class ShutdownSignal(GeneratorExit):
    """A SUBCLASS of GeneratorExit raised by a body: an exception like any other - it is thrown into a generator
    based manager as that very object (only GeneratorExit itself is "close the generator")."""


class StopSignal(StopAsyncIteration):
    pass


class LenientError(Exception):
    """An exception with a LENIENT equality: equal to anything (a test double, a sloppy value-based ``__eq__``).  Which
    exception is which is a matter of identity."""
    __hash__ = None  # type: ignore[assignment]

    def __eq__(self, other):
        return True

    def __ne__(self, other):
        return False


class Abort(BaseException):
    """A BaseException that is no Exception, raised by the body (an abort request, a framework's control-flow signal)."""


EXACT = {"Abort": Abort, "AbortAgain": Abort, "LenientError": LenientError, "Exception": Exception, "BaseException": BaseException, "StopAsyncIteration": StopAsyncIteration,
         "RuntimeError": RuntimeError, "KeyError": KeyError, "ShutdownSignal": ShutdownSignal, "StopSignal": StopSignal}


def execute(case, choose, cancel_at=None):
    CTX.reset()
    ev = []  # (task, kind, ...)
    counter = {"gid": 0, "call": 0}
    susp = case["susp"]
    suppress = case["suppress"]

    def suppressed(exc):
        """Does this scenario's manager swallow ``exc``?  True: Exceptions only; "all": every BaseException the BODY
        raises as well (the driver's own cancellation is never swallowed)."""
        if exc is None or not suppress:
            return False
        if suppress == "all":
            return not isinstance(exc, Cancel)
        return isinstance(exc, Exception)

    translated = {}

    def translate(exc):
        """The context replaces the body's failure by its own exception (chained explicitly, implicitly, or not)."""
        how = case.get("translate")
        # (also when the body ended with a BaseException that is no Exception - an abort: the clean-up's own failure
        # is what the call ends with; the driver's cancellation and GeneratorExit shutdowns are left alone)
        if how is None or isinstance(exc, (Cancel, GeneratorExit)):
            return
        # (a RuntimeError raised explicitly ``from`` a Stop(Async)Iteration is indistinguishable from the generator
        # protocol's own conversion of an escaped Stop(Async)Iteration - contextlib, too, reads it as "the generator
        # did not handle the exception"; that combination is left out)
        runtime = case.get("translate_runtime") and not (how == "from" and isinstance(exc, (StopIteration, StopAsyncIteration)))
        new = (TranslatedRuntime if runtime else Translated)(len(translated))
        translated[id(exc)] = (exc, new)
        if how == "from":
            raise new from exc
        if how == "from_none":
            raise new from None
        raise new

    if case["manager"] == "generator":
        async def _hook(*args):
            return "the hook ran"

        owners = []

        @A.contextmanager
        async def manager(*args):
            if case.get("manager_method") and (not args or args[0] is not owners[1]):
                CTX.foreign.append("the manager's generator function ran for another instance than the one it was taken from")
            counter["gid"] += 1
            gid = counter["gid"]
            ev.append((CTX.current, "enter", gid))
            if susp["enter"]:
                await Suspend(("enter", gid), susp["enter"])
            try:
                yield gid
            except BaseException as exc:
                ev.append((CTX.current, "exit", gid, exc))
                if susp["exit"]:
                    await Suspend(("exit", gid), susp["exit"])
                if suppressed(exc):
                    return
                translate(exc)
                raise
            else:
                ev.append((CTX.current, "exit", gid, None))
                if susp["exit"]:
                    await Suspend(("exit", gid), susp["exit"])

        # (a manager taking a single coroutine function as ITS argument - a notification hook: an argument like any other)
        deco = manager(_hook) if case.get("hook_arg") else manager()
        if case.get("manager_method"):
            # the generator function is a METHOD: defined in a class body and taken from an instance - from the second of
            # two instances, after the first one was asked for it as well
            Tracer = type("Tracer", (), {"span": manager})
            owners[:] = [Tracer(), Tracer()]
            owners[0].span
            deco = owners[1].span(_hook) if case.get("hook_arg") else owners[1].span()
    elif case["manager"] == "lease":
        class Lease(A.ContextDecorator):
            """Reusable but not re-entrant: hands out itself while idle and a fresh copy while in use - so what
            ``_recreate_cm`` answers depends on the moment it is asked."""

            def __init__(self):
                counter["gid"] += 1
                self.gid = ("lease", counter["gid"])
                self.busy = False

            def _recreate_cm(self):
                return Lease() if self.busy else self

            if case.get("recreate_binding") == "classmethod":
                # (the hook as a classmethod: a fresh lease per call - looked up like any other attribute)
                @classmethod
                def _recreate_cm(cls):  # noqa: F811
                    return cls()

            def __len__(self):
                return int(self.busy)  # resources currently held: an idle lease is "empty", i.e. tests false

            def __await__(self):
                # ``await lease`` (without a block) is this class's OTHER way of use and gives something else
                # entirely; the decorator has no business taking it
                CTX.foreign.append("the decorator awaited the manager object instead of entering it")
                return "an unmanaged resource"
                yield  # pragma: no cover

            def __enter__(self):
                # (the class ALSO spells out the synchronous protocol - to refuse it, as async resources often do)
                CTX.foreign.append("the decorator used the synchronous protocol of an asynchronous manager")
                raise TypeError("use 'async with'")

            def __exit__(self, et, exc, tb):
                CTX.foreign.append("the decorator used the synchronous protocol of an asynchronous manager")
                return False

            async def __aenter__(self):
                if self.busy:
                    raise RuntimeError(f"lease {self.gid} entered while already in use")
                self.busy = True
                ev.append((CTX.current, "enter", self.gid))
                if susp["enter"]:
                    await Suspend(("enter", self.gid), susp["enter"])
                return self

            async def __aexit__(self, et, exc, tb):
                ev.append((CTX.current, "exit", self.gid, exc))
                self.busy = False
                if susp["exit"]:
                    await Suspend(("exit", self.gid), susp["exit"])
                if exc is not None and not suppressed(exc):
                    translate(exc)
                # (an exit answering a CLEAN exit with a true value - "all is well" - has suppressed nothing)
                return suppressed(exc) or (exc is None and bool(case.get("clean_exit_truthy")))

        deco = Lease()
        if case.get("recreate_binding") == "instance":
            # (the hook set on the INSTANCE - a factory injected at construction time: it is this instance's hook)
            deco._recreate_cm = lambda: Lease()
    else:
        class Manager(A.ContextDecorator):
            def __bool__(self):
                return False

            def __await__(self):
                CTX.foreign.append("the decorator awaited the manager object instead of entering it")
                return "an unmanaged resource"
                yield  # pragma: no cover

            async def __aenter__(self):
                ev.append((CTX.current, "enter", "shared"))
                if susp["enter"]:
                    await Suspend(("enter", "shared"), susp["enter"])
                return self

            async def _leave(et, exc, tb):
                ev.append((CTX.current, "exit", "shared", exc))
                if susp["exit"]:
                    await Suspend(("exit", "shared"), susp["exit"])
                if exc is not None and not suppressed(exc):
                    translate(exc)
                # (an exit answering a CLEAN exit with a true value - "all is well" - has suppressed nothing)
                return suppressed(exc) or (exc is None and bool(case.get("clean_exit_truthy")))

            # (the exit as an ordinary method, a staticmethod or a classmethod - a class-level resource: the with
            # statement binds each of them correctly, and so does the decorator)
            if case.get("exit_binding") == "static":
                __aexit__ = staticmethod(_leave)
            elif case.get("exit_binding") == "class":
                @classmethod
                async def __aexit__(cls, et, exc, tb, _leave=_leave):
                    return await _leave(et, exc, tb)
            else:
                async def __aexit__(self, et, exc, tb, _leave=_leave):
                    return await _leave(et, exc, tb)
            del _leave

        deco = Manager()

    raised = {}

    async def body_async(call_id, how, func=None, self=None, args=None, kwds=None, cm=None):
        # (parameters named like the decorator's own: they belong to the decorated function)
        if (func, self, args, kwds, cm) != ("F", "S", "A", "K", "C"):
            raise AssertionError(f"the decorated function received {(func, self, args, kwds, cm)!r}")
        ev.append((CTX.current, "body", call_id))
        return await body_rest(call_id, how)

    def body_eager(call_id, how, func=None, self=None, args=None, kwds=None, cm=None):
        # a plain function that starts its work when CALLED and hands back an awaitable for the rest (a factory, a
        # partial, a sync wrapper): the call itself belongs inside the context
        if (func, self, args, kwds, cm) != ("F", "S", "A", "K", "C"):
            raise AssertionError(f"the decorated function received {(func, self, args, kwds, cm)!r}")
        ev.append((CTX.current, "body", call_id))
        return body_rest(call_id, how)

    async def body_rest(call_id, how):
        if susp["body"]:
            await Suspend(("body", call_id), susp["body"])
        if how == "raise":
            kind = case.get("exc", "Exception")
            # "exact:<Type>": an instance of the standard class itself (not of a subclass) - e.g. a plain Exception
            exc = EXACT[kind[6:]](call_id) if kind.startswith("exact:") else PLANNED[kind](call_id)
            raised[call_id] = exc
            raise exc
        if case.get("result_job"):
            # what the decorated function RETURNS happens to be awaitable (a lazily started job, a future the caller is
            # meant to await later - or never): a result like any other, handed to the caller as it is
            jobs[call_id] = _ResultJob(call_id)
            return jobs[call_id]
        return ("result", call_id)

    jobs = {}

    class _ResultJob:
        def __init__(self, cid):
            self.cid = cid

        def __eq__(self, other):
            return isinstance(other, tuple) and other == ("result", self.cid) and jobs.get(self.cid) is self

        __hash__ = None

        def __await__(self):
            ev.append((CTX.current, "result-awaited", self.cid))
            return ("awaited", self.cid)
            yield

    if case.get("as_method"):
        # the decorated coroutine function is a METHOD: defined in a class body, called through an instance - which
        # is bound as its first argument like for any other function
        class Service:
            async def run(this, call_id, how, func=None, self=None, args=None, kwds=None, cm=None):
                if not isinstance(this, Service):
                    raise AssertionError(f"the decorated method was called with {this!r} as its instance")
                return await body_async(call_id, how, func=func, self=self, args=args, kwds=kwds, cm=cm)

            run = deco(run)

        body = Service().run
    else:
        body = deco(body_eager if case.get("body_kind") == "eager" else body_async)
    results = []

    async def caller(t, hows):
        made = []
        if case.get("precreate"):
            # every call OBJECT of this task is created up-front and started later (gather / ensure_future create their
            # coroutine objects before any of them runs): which manager a call uses is settled when the call RUNS
            for how in hows:
                counter["call"] += 1
                cid = counter["call"]
                made.append((cid, body(cid, how, func="F", self="S", args="A", kwds="K", cm="C")))
            try:
                await Suspend(("created", t), 1)
            except BaseException:
                for _, call in made:
                    call.close()
                raise
        for n_call, how in enumerate(hows):
            if made:
                cid = made[n_call][0]
            else:
                counter["call"] += 1
                cid = counter["call"]
            ev.append((CTX.current, "call", cid, how))
            try:
                if made:
                    try:
                        r = await made[n_call][1]
                    except Cancel:
                        for _, later in made[n_call + 1:]:
                            later.close()  # (never started: the caller disposes of its own coroutine objects)
                        raise
                elif case.get("while_handling"):
                    # the call is made from INSIDE an except block of its caller (a retry, a fallback): the exception
                    # being handled out there is none of the call's business
                    try:
                        raise LookupError("an unrelated failure the caller is handling")
                    except LookupError:
                        r = await body(cid, how, func="F", self="S", args="A", kwds="K", cm="C")
                else:
                    r = await body(cid, how, func="F", self="S", args="A", kwds="K", cm="C")
            except BaseException as exc:  # noqa: BLE001
                planned = raised.get(cid)
                if not isinstance(exc, BodyError) and exc is not planned and exc is not translated.get(id(planned), (0, 0))[1]:
                    raise  # not the body's planned failure (a cancellation, or something the library made up)
                ev.append((CTX.current, "done", cid, ("raise", exc)))
            else:
                ev.append((CTX.current, "done", cid, ("ok", r)))

    async def direct_user():
        # the very manager object that decorates the function is also used directly, once
        try:
            async with deco:
                if susp["body"]:
                    await Suspend(("direct", 0), 1)
        except BaseException as exc:  # noqa: BLE001
            ev.append(("direct", "direct-use-raised", type(exc).__name__))

    driver = Driver(choose)
    tasks = [driver.spawn(f"t{t}", caller(t, hows), cancel_at=cancel_at if t == case.get("cancel_task") else None)
             for t, hows in enumerate(case["calls"])]
    if case.get("direct"):
        driver.spawn("direct", direct_user())
    driver.run()
    info = {"trace": tuple(driver.trace), "choice_points": driver.choice_points, "suspensions": [t.resumes for t in tasks]}
    viols = []
    if driver.deadlock:
        viols.append(("decorator/deadlock", "blocked"))
    gids_seen = []
    for t in tasks:
        cancelled = t.cancel_exc is not None
        if t.exc is not None and not (cancelled and t.exc is t.cancel_exc):
            viols.append(("decorator/task-raised", f"{t.name} ended with {type(t.exc).__name__}: {t.exc}"))
            continue
        if cancelled:
            info["cancelled"] = True
            info["cancel_phase"] = t.cancelled_at_owner[0] if isinstance(t.cancelled_at_owner, tuple) else None
        mine = [e for e in ev if e[0] == t.name]
        # split into calls
        calls = []
        for e in mine:
            if e[1] == "call":
                calls.append([e])
            elif calls:
                calls[-1].append(e)
            else:
                viols.append(("decorator/event-outside-call", f"{e}"))
        for idx, evs in enumerate(calls):
            cid, how = evs[0][2], evs[0][3]
            kinds = [e[1] for e in evs[1:]]
            last = cancelled and idx == len(calls) - 1 and (not kinds or kinds[-1] != "done")
            if not last:
                if kinds != ["enter", "body", "exit", "done"]:
                    viols.append(("decorator/call-event-sequence", f"{t.name} call {cid}: events {kinds}, expected enter, body, exit, done"))
                    continue
            else:
                phase = info.get("cancel_phase")
                want = {"enter": ["enter"], "body": ["enter", "body", "exit"], "exit": ["enter", "body", "exit"]}.get(phase)
                if want is not None and kinds != want:
                    viols.append(("decorator/cancelled-call-event-sequence",
                                  f"{t.name} call {cid} cancelled in {phase}: events {kinds}, expected {want}"))
                    continue
                if want is None:
                    continue
            enter = evs[1]
            gids_seen.append(enter[2])
            if "exit" in kinds:
                ex = evs[1 + kinds.index("exit")]
                if ex[2] != enter[2]:
                    viols.append(("decorator/exit-of-other-context", f"{t.name} call {cid}: entered {enter[2]} exited {ex[2]}"))
                got_exc = ex[3]
                if last and info.get("cancel_phase") == "body":
                    want_exc = t.cancel_exc
                else:
                    want_exc = raised.get(cid) if how == "raise" else None
                if got_exc is not want_exc:
                    viols.append(("decorator/exit-received-wrong-exception",
                                  f"{t.name} call {cid} ({how}): exit received {got_exc!r}, body ended with {want_exc!r}"))
            if "done" in kinds:
                outcome = evs[-1][3]
                if how == "ret":
                    want_out = ("ok", ("result", cid))
                elif suppressed(raised.get(cid)):
                    want_out = ("ok", None)
                else:
                    want_out = ("raise", translated.get(id(raised.get(cid)), (0, raised.get(cid)))[1])
                same = outcome[0] == want_out[0] and (outcome[1] is want_out[1] if want_out[0] == "raise" else outcome[1] == want_out[1])
                if not same:
                    viols.append(("decorator/call-outcome", f"{t.name} call {cid} ({how}, suppress={suppress}): {outcome}, expected {want_out}"))
    if case["manager"] == "generator" and len(set(gids_seen)) != len(gids_seen):
        viols.append(("decorator/generator-shared-between-calls", f"generator ids per call: {gids_seen}"))
    if any(e[1] == "direct-use-raised" for e in ev if e[0] == "direct"):
        viols.append(("decorator/direct-use-of-the-manager-raised", str([e for e in ev if e[0] == "direct"])))
    if case.get("direct"):
        info["direct"] = True
    if CTX.foreign:
        viols.append(("decorator/foreign-suspension", CTX.foreign[0]))
    return viols, info


def run_case(case, stats: Counter):
    viols_out = {}
    traces = set()
    evals = 0
    cancel_points = [None]
    if case.get("cancel_task") is not None:
        _, info = execute(case, rr_strategy())
        cancel_points = list(range(1, info["suspensions"][case["cancel_task"]] + 1)) or [None]
    for cancel_at in cancel_points:
        runs = case["runs"] if cancel_at is None else max(20, case["runs"] // len(cancel_points))

        def exe(choose, cancel_at=cancel_at):
            return execute(case, choose, cancel_at)

        for res, mode, exh in explore(exe, case["mode"], case["seed"], runs, len(case["calls"]) + (1 if case.get("direct") else 0)):
            if res is None:
                stats["scenarios_explored_exhaustively" if exh else "dfs_budget_hit"] += 1
                continue
            viols, info = res
            evals += 1
            traces.add((cancel_at, info["trace"]))
            stats["executions"] += 1
            stats["choice_points"] += info["choice_points"]
            if info.get("direct"):
                stats["runs_with_direct_use_of_the_manager"] += 1
            if info.get("cancelled"):
                stats["cancelled_runs"] += 1
                stats[f"cancelled_in_{info.get('cancel_phase')}"] += 1
            for key, msg in viols:
                if key not in viols_out:
                    viols_out[key] = {"key": key, "msg": f"decorator scenario {dict(case, runs=None)} cancel_at={cancel_at} "
                                                         f"trace={list(info['trace'])}: {msg}"[:1400],
                                      "detail": {"trace": list(info["trace"]), "cancel_at": cancel_at}}
    stats[f"manager_{case['manager']}"] += 1
    stats["distinct_schedules"] += len(traces)
    return {"violations": list(viols_out.values()), "evals": max(1, evals), "distinct": len(traces),
            "sample": dict(case, example_schedule=[list(map(str, t)) for t in list(traces)[:1]])}


def finish(stats, tier):
    for need in ("executions", "choice_points", "cancelled_in_enter", "cancelled_in_body", "cancelled_in_exit",
                 "manager_generator", "manager_class", "scenarios_explored_exhaustively",
                 "runs_with_direct_use_of_the_manager"):
        if not stats.get(need):
            return f"deciding counter {need} is zero"
    return None
