"""C09 — tee children all see the full source sequence under every interleaving."""
from __future__ import annotations

import random
import weakref
from collections import Counter

import asyncstdlib as A

from ..loop import CTX, Driver, Suspend, BudgetExceeded, Cancel, run_finalizers, drive
from ..probes import Item, SrcState, Plan, make_source, VLock
from ..sched import explore

ID = "C09"
LEVEL = "exploration"
ANCHORS = ["itertools.py"]
RULE = ("2..4 consumer tasks each advancing one tee child of an instrumented class-based source under a controlled "
        "scheduler: ALL interleavings (stateless DFS over every choice point, re-executing from scratch) for the "
        "small configurations, seeded random and PCT priority schedules beyond; source length 0..4 (retention class: "
        "10..16), source suspending 0..2 times per item (only with a lock), locks that are themselves a scheduling point "
        "before acquiring and/or after releasing, consumers suspending between items, any "
        "subset of children closed after j items, one consumer cancelled at each of its suspension points. Online "
        "monitors after EVERY step: source never advanced by two tasks at once when locked; items that every live "
        "child already yielded are dead (weak references) except one pinned frame local per child. At the end: every "
        "child got exactly the source sequence (prefix for closed/cancelled children), no deadlock, lock free, the "
        "Cancel object itself propagated, source closed once all children are done. one evaluation = one executed "
        "schedule; distinct = distinct (scenario, schedule trace); non-trivial = schedule with >= 1 choice point")
RULE += (' Also: every probe lock offers acquire() / release() coroutines next to the context protocol (a release that is only called releases nothing).')
RULE += (' Also: cancelled consumers that abandon their child without closing it (what an async-for loop does), the child remaining a live lagging child.')
RULE += (' Also: a tee of a tee child, the inner tee with a lock of its own.')
RULE += (' Also: no pinned item at all is tolerated once every live child has yielded it.')
RULE += (' Also: with fixed per-consumer requests the source is never advanced beyond the largest request.')
RULE += (' Also: a future-style source whose plain __anext__ starts the fetch when called (scenarios without cancellation).')
RULE += (' Also: a synchronous non-iterator collection as tee source.')
RULE += (' Also: a child asking for an item the source has already handed out receives it without a single suspension (boundary monitor, class sources, also without aclose).')
RULE += (' Also: class-based sources that also offer (and refuse) the synchronous protocol.')
RULE += (' Also: a source whose __aiter__ must not be called again once iteration has begun.')
RULE += (' Also: sources handing out the same object several times in a row (every occurrence is an item for every child).')
RULE += (' Also: a child tens of thousands of items behind its sibling still receives everything (no cap on a live backlog).')
ASSUMPTIONS = ["without a lock only non-suspending sources are claimed (as the property states)",
               "class-based cancellation-safe source: an item is consumed only after the last suspension of __anext__",
               "consumers close their child when they stop (owner closes what it advanced)"]
EXHAUSTIVE_SUBSPACES = 'every scenario counted in scenarios_explored_exhaustively had ALL its interleavings executed (stateless DFS emptied its frontier)'
EXHAUSTIVE = {"quick": False, "thorough": False}
ALLOW_PINNED = int(__import__("os").environ.get("C09_ALLOW_PINNED", "0"))
N_SCEN = {"quick": 600, "thorough": 6000}
DFS_LIMIT = {"quick": 1500, "thorough": 40000}
RANDOM_RUNS = {"quick": 60, "thorough": 400}


def cases(tier, seed, shard, nshards):
    if shard == 0:
        for lag in ((40000,) if tier == "quick" else (40000, 70000, 140000)):
            for lock in (False, True):
                yield {"mode": "biglag", "lag": lag, "lock": lock}
    rng = random.Random(f"C09-{seed}-{shard}")
    n = max(1, N_SCEN[tier] // nshards)
    for i in range(n):
        kind = ["dfs", "dfs", "random", "pct", "retention"][i % 5]
        if kind == "dfs":
            nc = rng.choice([2, 2, 2, 3])
            length = rng.randint(0, 3 if nc == 2 else 2)
            lock = rng.random() < 0.7
            case = {"mode": "dfs", "n": nc, "len": length, "lock": lock,
                    "src_susp": rng.choice([0, 1, 1, 2]) if lock else 0,
                    "cons_susp": rng.choice([0, 1]) if nc == 2 else 0,
                    "runs": DFS_LIMIT[tier]}
        elif kind == "retention":
            nc = rng.choice([2, 3])
            lock = rng.random() < 0.5
            case = {"mode": rng.choice(["random", "pct"]), "n": nc, "len": rng.randint(10, 16), "lock": lock,
                    "src_susp": rng.choice([0, 1]) if lock else 0, "cons_susp": rng.choice([0, 1, 1]),
                    "runs": RANDOM_RUNS[tier] // 3}
        else:
            nc = rng.choice([2, 3, 4])
            lock = rng.random() < 0.7
            case = {"mode": kind, "n": nc, "len": rng.randint(0, 4), "lock": lock,
                    "src_susp": rng.choice([0, 1, 2]) if lock else 0, "cons_susp": rng.choice([0, 1, 2]),
                    "runs": RANDOM_RUNS[tier]}
        # a tee of a tee child: child 0 of the (outer) tee is itself split again, by a tee with a lock of ITS OWN;
        # the consumers are the remaining outer children and the inner children
        case["nested"] = rng.choice([1, 2]) if kind != "retention" and rng.random() < 0.2 else 0
        total = case["n"] - 1 + case["nested"] if case["nested"] else case["n"]
        # early closes
        case["close_after"] = [rng.choice([None, None, None, 0, 1, 2]) for _ in range(total)]
        if rng.random() < 0.5:
            case["close_after"] = [None] * total
        # cancellation of one consumer (enumerated over its suspension points inside run_case)
        case["cancel_task"] = rng.randrange(total) if rng.random() < 0.4 else None
        if case["nested"] and case["cancel_task"] is not None and case["cancel_task"] >= case["n"] - 1:
            # the inner tee's source is an async generator (the split outer child): a cancellation thrown into a
            # read that is suspended inside it finishes that generator, as for any generator source - what the
            # inner siblings get afterwards is not the tee's doing.  Only outer consumers are cancelled here
            case["cancel_task"] = rng.randrange(case["n"] - 1) if case["n"] > 1 else None
        case["abandon_on_cancel"] = rng.random() < 0.4
        # (the eager-start flavour takes its item when __anext__ is CALLED: a fetch begun outside the lock, or begun
        # and then dropped, shows as two consumers inside the source / a lost item)
        # (... and it is NOT cancellation safe - a cancelled request has taken its item for good - so it is used only
        # in scenarios without a cancelled consumer)
        # (... and a source that has nothing but __aiter__/__anext__: nothing to close, buffers managed all the same)
        case["flav"] = rng.choice(["async_class", "async_class", "async_class_eagerstart", "async_class_bare", "async_class_aiter_once"]) \
            if case["cancel_task"] is None else rng.choice(["async_class", "async_class", "async_class_bare", "async_class_aiter_once"])
        if not case["src_susp"] and rng.random() < 0.25:
            # a synchronous collection that is not its own iterator (asked for an iterator twice, it reports it): the
            # tee draws ONE iterator from it, whatever the number of children
            case["flav"] = "sync_iterable"
        # locks that are a scheduling point before acquiring / after having released
        case["lock_susp"] = rng.choice([[0, 0], [0, 0], [1, 0], [0, 1], [1, 1]]) if case["lock"] else [0, 0]
        # a source handing out the SAME object several times in a row (a repeated sentinel, an interned value): each
        # occurrence is an item of its own for every child
        case["repeat"] = rng.random() < 0.2
        case["seed"] = rng.randrange(1 << 30)
        yield case


def execute(case, choose, cancel_at=None):
    """Build the scenario from scratch, run it under ``choose``; return (violations, info)."""
    CTX.reset()
    n, length = case["n"], case["len"]
    items = []
    for i in range(length):
        items.append(items[-1] if case.get("repeat") and i % 3 else Item(i, (0, i)))
    expected = [x.uid[1] for x in items]
    # (object, index of its last occurrence): an object is done with once every live child yielded that occurrence
    refs = [(weakref.ref(x), max(j for j in range(length) if items[j] is x)) for i, x in enumerate(items)
            if i == 0 or items[i - 1] is not x]
    st = SrcState(0, items, Plan(case["src_susp"]), log=False)
    st.drop = True
    del items
    src = make_source(st, case["flav"])
    lsusp = case.get("lock_susp", [0, 0])
    lock = VLock("tee", susp_enter=lsusp[0], susp_exit=lsusp[1]) if case["lock"] else None
    handle = A.tee(src, n, lock=lock) if lock is not None else A.tee(src, n)
    children = list(handle)
    lock2 = inner = None
    if case.get("nested"):
        lock2 = VLock("tee2", susp_enter=lsusp[0], susp_exit=lsusp[1]) if case["lock"] else None
        inner = A.tee(children[0], case["nested"], lock=lock2) if lock2 is not None else A.tee(children[0], case["nested"])
        children = children[1:] + list(inner)
        n = len(children)
    recs = [[] for _ in range(n)]
    finished = [False] * n
    closed = [False] * n
    advanced = [False] * n
    abandoned = [False] * n
    viols = []

    async def consumer(c):
        child = children[c]
        try:
            k = 0
            while True:
                if case["close_after"][c] is not None and k >= case["close_after"][c]:
                    break
                advanced[c] = True
                # the source has already handed out the item this child asks for (a sibling fetched it): it sits in
                # this child's buffer, and - as for itertools.tee - the child provides it at once, whatever a sibling
                # is doing (e.g. holding the lock while it waits for the source)
                buffered = (case["flav"] in ("async_class", "async_class_bare", "async_class_aiter_once") and not case.get("nested") and st.pos > k)
                before = tasks[c].resumes
                try:
                    item = await child.__anext__()
                except StopAsyncIteration:
                    finished[c] = True
                    break
                if buffered:
                    seen["buffered_reads"] += 1
                    if tasks[c].resumes != before:
                        viols.append(("tee/buffered-item-not-provided-at-once",
                                      f"child {c} asked for item {k} after the source had handed out {k + 1}+ items, "
                                      f"and was suspended {tasks[c].resumes - before}x before it got it"))
                recs[c].append(item.uid[1])
                del item
                k += 1
                if case["cons_susp"]:
                    await Suspend(("cons", c), case["cons_susp"])
        except Cancel:
            if case.get("abandon_on_cancel"):
                # a cancelled consumer that merely stops using its child (an ``async for`` loop does not close the
                # iterator it was driving): the child stays a live, lagging child; its siblings must not care
                abandoned[c] = True
            raise
        finally:
            if not abandoned[c]:
                await child.aclose()
                closed[c] = True

    worst = {"stale": 0}
    seen = Counter()

    def monitor(driver, task):
        if lock is not None and st.max_active > 1:
            viols.append(("tee/source-advanced-concurrently-under-lock",
                          f"source __anext__ active {st.max_active}x at step {driver.steps}"))
        live = [c for c in range(n) if not closed[c] and not finished[c]]
        floor = min((len(recs[c]) for c in live), default=st.pos)
        stale = sum(1 for ref, last in refs if last < floor and ref() is not None)
        if stale > worst["stale"]:
            worst["stale"] = stale
        # (a synchronous source is read through the library's sync-to-async adapter, a generator whose loop variable
        # holds the item it handed out last until it is asked for the next one: one item, outside the tee)
        if stale > ALLOW_PINNED * (n + (1 + case["nested"] if case.get("nested") else 0)) + (case["flav"] == "sync_iterable"):
            unstarted = any(closed[c] and not advanced[c] for c in range(n))
            viols.append(("tee/unstarted-child-never-deregisters" if unstarted else "tee/retains-items-every-live-child-yielded",
                          f"{stale} items that all live children {live} already yielded are still alive at step "
                          f"{driver.steps} (allowed: one pinned frame local per child = {n})"))

    driver = Driver(choose, after_step=monitor)
    tasks = []
    for c in range(n):
        tasks.append(driver.spawn(f"c{c}", consumer(c), cancel_at=cancel_at if c == case.get("cancel_task") else None))
    driver.run()
    info = {"trace": tuple(driver.trace), "choice_points": driver.choice_points, "worst_stale": worst["stale"],
            "contended": lock.contended if lock is not None else 0, "buffered_reads": seen["buffered_reads"], "suspensions": [t.resumes for t in tasks]}
    if driver.deadlock:
        viols.append(("tee/deadlock", f"no runnable task; unfinished: {[t.name for t in tasks if not t.done]}"))
    for c, t in enumerate(tasks):
        if t.exc is not None:
            if t.cancel_exc is not None and t.exc is t.cancel_exc:
                info["cancelled"] = True
            else:
                viols.append(("tee/consumer-raised", f"consumer {c} ended with {type(t.exc).__name__}: {t.exc}"))
                continue
        got = recs[c]
        cancelled = t.cancel_exc is not None
        if cancelled or not t.done:
            ok = got == expected[:len(got)]
        elif case["close_after"][c] is not None:
            ok = got == expected[:case["close_after"][c]]
        else:
            ok = got == expected
        if not ok:
            viols.append(("tee/child-sequence", f"child {c} received {got}, source sequence is {expected} "
                                                f"(close_after={case['close_after'][c]}, cancelled={cancelled})"))
    if (lock is not None or not case["src_susp"]) and not driver.deadlock and all(t.done and t.exc is None for t in tasks) \
            and all(k is not None for k in case["close_after"]):
        # every consumer asked for a fixed number of items: nothing beyond the largest request is taken from the
        # source (a child that finds the item it was waiting for in its buffer does not fetch another one)
        asked = max(case["close_after"], default=0)
        if st.pos > min(asked, length):
            viols.append(("tee/source-advanced-beyond-any-request",
                          f"consumers asked for {case['close_after']} items, the source was advanced {st.pos} times"))
    if lock is not None and lock.owner is not None and not driver.deadlock:
        viols.append(("tee/lock-held-at-end", f"lock still owned by {lock.owner}"))
    if lock2 is not None and lock2.owner is not None and not driver.deadlock:
        viols.append(("tee/lock-held-at-end", f"lock of the inner tee still owned by {lock2.owner}"))
    if all(t.done for t in tasks) and not driver.deadlock and not any(abandoned) and case["flav"] not in ("sync_iterable", "async_class_bare"):
        # (a synchronous source has nothing to close)
        if not st.released():
            key = "tee/unstarted-child-never-deregisters" if not all(advanced) else "tee/source-not-closed-after-last-child"
            viols.append((key, f"all consumers done, source still open (advanced={advanced})"))
    if CTX.foreign:
        viols.append(("tee/foreign-suspension", CTX.foreign[0]))
    return viols, info


def run_biglag(case, stats):
    """One child runs far ahead (tens of thousands of items), the other then reads everything from the start: however
    large the backlog of a live child has grown, nothing of it is dropped."""
    CTX.reset()
    lag = case["lag"]
    st = SrcState(0, list(range(lag)), Plan(0), log=False)
    src = make_source(st, "async_class")
    lock = VLock("tee") if case["lock"] else None
    a_, b_ = A.tee(src, 2, lock=lock) if lock is not None else A.tee(src, 2)
    result = {}

    async def main():
        count = 0
        async for _ in a_:
            count += 1
        result["leader"] = count
        first, seen, ok = None, 0, True
        async for item in b_:
            if first is None:
                first = item
            if item != seen:
                ok = False
            seen += 1
        result["follower"] = (first, seen, ok)

    drive(main())
    viols = []
    if result.get("leader") != lag or result.get("follower") != (0 if lag else None, lag, True):
        viols.append({"key": "tee/child-sequence",
                      "msg": f"tee over {lag} items, one child {lag} items ahead (lock={case['lock']}): the leader received "
                             f"{result.get('leader')} items, the follower (first item, count, in order) = {result.get('follower')}"})
    stats["large_backlog_runs"] += 1
    stats["largest_backlog"] = max(stats["largest_backlog"], lag)
    return {"violations": viols, "evals": 1, "distinct": 1, "sample": dict(case)}


def run_case(case, stats: Counter):
    if case["mode"] == "biglag":
        return run_biglag(case, stats)
    viols_out = {}
    traces = set()
    evals = 0
    exhaustive_flag = False
    cancel_points = [None]
    if case.get("cancel_task") is not None:
        # count suspension points of that consumer in a round-robin run, then cancel at each
        from ..loop import rr_strategy
        _, info = execute(case, rr_strategy())
        nsus = info["suspensions"][case["cancel_task"]]
        cancel_points = list(range(1, nsus + 1)) or [None]
    for cancel_at in cancel_points:
        runs = case["runs"] if cancel_at is None else max(20, case["runs"] // max(1, len(cancel_points)))

        def exe(choose, cancel_at=cancel_at):
            return execute(case, choose, cancel_at)

        try:
            for res, mode, exh in explore(exe, case["mode"], case["seed"], runs, len(case["close_after"])):
                if res is None:
                    exhaustive_flag = exh
                    if exh:
                        stats["scenarios_explored_exhaustively"] += 1
                    else:
                        stats["dfs_budget_hit"] += 1
                    continue
                viols, info = res
                evals += 1
                traces.add((cancel_at, info["trace"]))
                stats["executions"] += 1
                if case.get("nested"):
                    stats["executions_with_a_tee_of_a_tee_child"] += 1
                stats["choice_points"] += info["choice_points"]
                stats["contended_lock_acquisitions"] += info["contended"]
                stats["reads_of_an_item_a_sibling_already_fetched"] += info["buffered_reads"]
                if info.get("cancelled"):
                    stats["cancelled_runs"] += 1
                if info["worst_stale"]:
                    stats["runs_with_pinned_items"] += 1
                stats["max_pinned_items"] = max(stats["max_pinned_items"], info["worst_stale"])
                for key, msg in viols:
                    if key not in viols_out:
                        viols_out[key] = {"key": key, "msg": f"tee scenario {dict(case, runs=None)} cancel_at={cancel_at} "
                                                             f"trace={list(info['trace'])}: {msg}"[:1200],
                                          "detail": {"trace": list(info["trace"]), "cancel_at": cancel_at}}
        except BudgetExceeded:
            raise
    stats[f"mode_{case['mode']}"] += 1
    stats["distinct_schedules"] += len(traces)
    return {"violations": list(viols_out.values()), "evals": max(1, evals), "distinct": len(traces),
            "sample": dict(case, example_schedule=[list(map(str, t)) for t in list(traces)[:1]])}


def finish(stats, tier):
    for need in ("executions", "choice_points", "contended_lock_acquisitions", "cancelled_runs",
                 "scenarios_explored_exhaustively", "distinct_schedules", "reads_of_an_item_a_sibling_already_fetched"):
        if not stats.get(need):
            return f"deciding counter {need} is zero"
    return None
