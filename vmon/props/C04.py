"""C04 — owned async iterators are released when a tool finishes, fails or is closed."""
from __future__ import annotations

import itertools
import random
from collections import Counter

import asyncstdlib as A

from .. import gen
from ..loop import CTX, drive, Suspend, Cancel, run_finalizers
from ..probes import FAULT_TYPES, Injected, SrcState, make_source, Item, Plan, FnState, make_fn
from ..tools import run_async_side, Fault, TOOLS, IMPLS

ID = "C04"
LEVEL = "fault_enumeration"
ANCHORS = ["_core.py", "builtins.py", "itertools.py", "heapq.py", "functools.py", "asynctools.py"]
RULE = ("crash-point enumeration over the lifecycle of instrumented sources (async generators: finished iff ag_frame is "
        "None; class based: aclose count / exhaustion): for every iterator tool and input take j items for EVERY j in "
        "0..len+1 then aclose(); inject a source fault and a callable fault at EVERY use index; athrow a consumer "
        "exception at EVERY position; run to exhaustion; aggregations with a fault at every use and with raising "
        "comparisons / unhashable / unpackable members; tee: sequences of advance/close over children incl. never "
        "advanced ones and handle close; groupby: close with live, stale, no group and unstarted; chain handles "
        "unstarted and partially consumed. Verdict at the moment the close/raise/exhaustion completes (no GC grace). "
        "one evaluation = one scenario run; non-trivial = at least one closable async source was still open when "
        "the scenario's terminating event started; distinct = (spec, flavours, scenario)")
RULE += (' Also: adapter sources forwarding aclose through __getattr__, future-like sources, sequences of uses over a fresh adapter class per case (instances with and without aclose), groupby closed after a failing source/key and after a cancelled advance, functions/keys that are not callable at all.')
RULE += (' Also: class sources have value semantics (all equal, unhashable); async iterables that are not iterators.')
RULE += (' Also: a source whose aclose appears only once iteration has begun; tee children closed in reverse order.')
RULE += (' Also: tee sources failing once at their k-th use (the fetching child ends; the last child to go closes the source).')
RULE += (' Also: iterators drawn from async iterables are owned by the tool that drew them.')
RULE += (' Also: end-of-iteration exceptions raised by user callables or thrown in by the consumer.')
RULE += (' Also: a class-based source that reports its remaining length (sized shortcuts still own and close it).')
RULE += (' Also: one of several inputs whose __aiter__ fails (cannot be opened).')
RULE += (' Also: one of several inputs that is not iterable at all - the tool that reports it has ended and lets go of the others; groupby keys failing with Stop(Async)Iteration / GeneratorExit / RuntimeError.')
RULE += (' Also: class sources whose aclose is a plain method handing back a future-like close job.')
RULE += (' Also: adapters that offer aclose only once they were advanced are closed when the tool ends.')
ASSUMPTIONS = ["sources' own aclose never suspends or fails", "sync iterables have nothing to release",
               "a generator-based tool closed before its first step runs no code (language semantics): sources need "
               "not be closed then, except for handles that advertise eager closing (chain, tee, groupby)"]
EXHAUSTIVE = {"quick": False, "thorough": False}
N_SPECS = {"quick": 12000, "thorough": 600000}
SRC_FL = ["async_gen", "async_class", "async_class", "async_class_bare", "list", "async_class_proxy", "async_class_future", "async_iterable", "async_class_lateclose", "async_class_sized", "async_class_closejob"]
EAGER = {"chain"}  # handles closing what they own even if never advanced (tee/groupby handled separately)


def _sequence_cases(shard, nshards):
    idx = 0
    tools = list(SEQ_ITER_TOOLS) + list(SEQ_AGG_TOOLS)
    for tool in tools:
        for kinds in itertools.product(("bare", "class", "gen"), repeat=2):
            if kinds[0] == kinds[1]:
                continue
            for mode in ("exhaust", "close1"):
                idx += 1
                if idx % nshards == shard:
                    yield {"kind": "sequence", "uses": [[tool, kinds[0], mode], [tool, kinds[1], mode]]}
    # different tools sharing an adapter class
    for i, t1 in enumerate(tools):
        t2 = tools[(i * 7 + 3) % len(tools)]
        for kinds in (("bare", "class"), ("class", "bare"), ("bare", "gen")):
            idx += 1
            if idx % nshards == shard:
                yield {"kind": "sequence", "uses": [[t1, kinds[0], "exhaust"], [t2, kinds[1], "close1"], [t1, kinds[1], "exhaust"]]}


def cases(tier, seed, shard, nshards):
    yield from _sequence_cases(shard, nshards)
    rng = random.Random(f"C04-{seed}-{shard}")
    n = N_SPECS[tier] // nshards
    maxlen = 3 if tier == "quick" else 5
    names = [x for x in gen.ITER_TOOL_NAMES if x != "iter_sentinel"] + gen.AGG_NAMES + ["tee", "groupby", "tee", "groupby"]
    for i in range(n):
        name = names[i % len(names)]
        if name == "tee":
            nchild = rng.choice([1, 2, 2, 3])
            ops = []
            for _ in range(rng.randint(0, 8)):
                r = rng.random()
                ops.append(["next", rng.randrange(nchild)] if r < 0.6 else ["close", rng.randrange(nchild)] if r < 0.9
                           else ["close_handle"])
            yield {"kind": "tee", "n": nchild, "len": rng.randint(0, maxlen), "ops": ops,
                   "flav": rng.choice(["async_gen", "async_class", "async_class_proxy", "async_class_lateclose"]),
                   "final": rng.choice(["close_all", "close_all_reversed", "close_handle", "none"]),
                   # the source fails once, at its k-th use: the child that was fetching ends with that failure (it is
                   # done), the others carry on; whoever is the last one to go closes the source
                   "fault": [rng.randint(1, maxlen + 1), rng.choice(["Injected", "InjectedBase", "RuntimeError", "KeyError"])]
                   if rng.random() < 0.35 else None}
        elif name == "groupby":
            ks = gen.keys_seq(rng, maxlen + 2, 2)
            ops = [rng.choice(["adv", "grp", "grp", "oldgrp"]) for _ in range(rng.randint(0, 6))]
            yield {"kind": "groupby", "keys": ks, "ops": ops, "flav": rng.choice(["async_gen", "async_class", "async_class_proxy"]),
                   "key": rng.choice([None, "half", "async"]),
                   "fault": rng.choice([None, None, ["src", rng.randint(1, len(ks) + 1)], ["key", rng.randint(1, len(ks) + 1)]]),
                   # (what the key fails with: also the very signals of the iteration protocols)
                   "fault_exc": rng.choice(["Injected", "Injected", "StopAsyncIteration", "StopIteration", "GeneratorExit", "RuntimeError"]),
                   "cancel": rng.random() < 0.35}
        elif name in gen.AGG_NAMES:
            spec = gen.agg_spec(rng, name, maxlen)
            yield {"kind": "agg", "spec": spec, "flav": rng.choice(["async_gen", "async_class", "async_class_proxy", "async_class_sized"]),
                   "fnfl": rng.choice(["def", "async_def"]), "exc": rng.choice(list(FAULT_TYPES))}
        else:
            spec = gen.iter_spec(rng, name, maxlen)
            spec.pop("steps", None)
            flav = [rng.choice(SRC_FL) for _ in spec["srcs"]]
            yield {"kind": "iter", "spec": spec, "flav": flav, "fnfl": rng.choice(["def", "async_def"]),
                   "exc": rng.choice(list(FAULT_TYPES))}


# ---------------------------------------------------------------------------
# generic part
# ---------------------------------------------------------------------------

def _closable(side, spec):
    """Sources that are async iterators with a way to be released, and were handed to the tool."""
    out = []
    srcs = side.srcs
    if spec["tool"] == "chain_from_iterable":
        outer = srcs[-1]
        # only inner iterables already fetched from the outer iterable belong to the chain
        inner = srcs[:-1][:outer.pos]
        cand = inner + [outer]
    else:
        cand = srcs
    for st in cand:
        if st.gen is not None or (st.closed is not None and getattr(st, "_flav", "") == "async_class"):
            out.append(st)
    return out


def _leaks(side, spec, flavs, outer_flav):
    leaked = []
    srcs = side.srcs
    fl = list(flavs)
    if spec["tool"] == "chain_from_iterable":
        outer = srcs[-1]
        pairs = list(zip(srcs[:-1][:outer.pos], fl[:outer.pos])) + [(outer, outer_flav)]
    else:
        pairs = list(zip(srcs, fl))
    n_closable = 0
    for st, f in pairs:
        # (the iterator a tool draws from an async ITERABLE is the tool's own as well)
        if f not in ("async_gen", "async_class", "async_class_full", "async_class_proxy", "async_class_future", "async_iterable", "async_class_sized", "async_class_closejob", "async_class_lateclose"):
            continue
        if f == "async_iterable" and not st.given:
            continue  # never asked for an iterator: there is nothing anybody could own
        if f == "async_class_lateclose" and not st.started:
            continue  # (an adapter that was never advanced has not opened anything yet: nothing to close)
        n_closable += 1
        if not st.released():
            leaked.append(st.sid)
    return leaked, n_closable


def run_iter(case, stats):
    spec = case["spec"]
    tool = spec["tool"]
    flav = list(case["flav"])[:len(spec["srcs"])]
    nfn = len(spec.get("fns", []))
    fnfl = [case.get("fnfl", "def")] * nfn
    outer = "async_class" if (flav and flav[0].startswith("async")) else "list"
    if tool == "chain_from_iterable":
        outer = case.get("outer", "async_class")
    viols, sigs, evals = [], [], 0
    head = f"{tool} {spec['params']} srcs={spec['srcs']} flav={flav}"

    def judge(side, scenario, advanced, flav=flav):
        nonlocal evals
        evals += 1
        stats["scenarios"] += 1
        stats[f"scn_{scenario[0]}"] += 1
        if side.foreign:
            viols.append({"key": f"{tool}/foreign-suspension", "msg": side.foreign[0]})
        if side.term and side.term[0] == "aclose-raised":
            viols.append({"key": f"{tool}/aclose-raises", "msg": f"{head} scenario {scenario}: aclose raised {side.term[1:]}"})
            return
        leaked, n_closable = _leaks(side, spec, flav, outer)
        if n_closable:
            sigs.append((spec, flav, scenario))
        if leaked and (advanced or tool in EAGER):
            stats["leaks_seen"] += 1
            key = f"{tool}/leak-on-{scenario[0]}"
            viols.append({"key": key, "msg": f"{head} scenario {scenario}: sources {leaked} neither closed nor exhausted "
                                             f"when the {scenario[0]} completed (term {side.term})",
                          "detail": {"scenario": scenario, "leaked": leaked}})

    # fault-free run to exhaustion
    full = run_async_side(spec, flavours=flav, fn_flavours=fnfl, log=False, outer_flavour=outer, steps=spec.get("steps"))
    nout = len(full.out)
    if tool != "cycle":
        judge(full, ("exhaust",), True)
    # a function / key / predicate that is not callable at all: the TypeError of its first use is a failure like any
    if nfn and spec["fns"][0] is not None and any(spec["srcs"]):
        side = run_async_side(spec, flavours=flav, fn_flavours=["notcallable"] * nfn, log=False, outer_flavour=outer,
                              steps=spec.get("steps"))
        if side.term and side.term[0] == "raise":
            judge(side, ("notcallable", side.term[1]), True)
    # one of several inputs is not iterable at all (a value handed over by mistake): whenever the tool - created and
    # advanced like any other - reports that, it has ended and lets go of the inputs it was given
    if len(flav) >= 2 and tool != "chain_from_iterable":
        for p, kind in itertools.product(range(len(flav)), ("not_iterable", "unopenable")):
            # ("unopenable": an async iterable whose __aiter__ itself fails - the refusal comes when the tool asks for
            # the iterator, possibly before it has taken charge of the inputs it was given earlier)
            bad = list(flav)
            bad[p] = kind
            try:
                side = run_async_side(spec, flavours=bad, fn_flavours=fnfl, log=False, outer_flavour=outer,
                                      steps=spec.get("steps"), close_after=True)
            except TypeError:
                stats["not_iterable_argument_refused_at_construction"] += 1
                continue
            if side.term and side.term[0] == "raise" and side.term[1] == "TypeError" and side.handle is not None:
                stats["not_iterable_argument_runs"] += 1
                if kind == "not_iterable":
                    judge(side, ("notiterable", p), True, bad)
                else:
                    # two mechanisms, two keys: inputs handed over BEFORE the one that cannot be opened (the tool may hold
                    # their iterators already) and inputs AFTER it (the tool has not looked at them yet)
                    leaked, _ = _leaks(side, spec, bad, outer)
                    for name, keep in (("unopenable-inputs-before", [x for x in leaked if x < p]),
                                       ("unopenable-inputs-after", [x for x in leaked if x > p])):
                        if keep:
                            stats["leaks_seen"] += 1
                            viols.append({"key": f"{tool}/leak-on-{name}",
                                          "msg": f"{head} flavours {bad}: input {p} cannot be opened (its __aiter__ raises); "
                                                 f"the tool raised {side.term[1]} at its first step and inputs {keep} are "
                                                 f"neither closed nor exhausted", "detail": {"scenario": [name, p], "leaked": keep}})
                    evals += 1
                    stats["scn_unopenable"] += 1
    # early close after j items
    top = min(nout + 1, 6) if tool != "cycle" else 5
    for j in range(0, top + 1):
        side = run_async_side(spec, flavours=flav, fn_flavours=fnfl, log=False, outer_flavour=outer, steps=j, close_after=True)
        judge(side, ("close", j), j >= 1)
    # consumer exception thrown in at every position (generator based tools only expose athrow)
    for j in range(1, min(nout, 5) + 1):
        # (every third position it is an end-of-iteration exception that the consumer throws in, or - below - that a
        # user callable raises: whatever the generator protocol turns it into, the tool has ended and lets go of its inputs)
        exc = (StopAsyncIteration if j % 3 == 0 else FAULT_TYPES[case["exc"]])("thrown by consumer")
        side = run_async_side(spec, flavours=flav, fn_flavours=fnfl, log=False, outer_flavour=outer, steps=j, athrow=exc)
        if side.term and side.term[0] == "athrow" and side.term[1] != "yielded":
            # (a tool that answers the thrown exception with another item has not ended: nothing to judge yet)
            judge(side, ("athrow", j), True)
    # faults at every use of every probe
    probes = [("src", s, st.uses) for s, st in enumerate(full.srcs) if st.sid != "outer"]
    probes += [("outer", 0, st.uses) for st in full.srcs if st.sid == "outer"]
    probes += [("fn", i, fs.uses) for i, fs in enumerate(full.fns) if fs is not None]
    for kind, index, uses in probes:
        for k in range(1, uses + 1):
            stop_like = kind == "fn" and k % 3 == 0
            exc = (StopAsyncIteration if stop_like else FAULT_TYPES[case["exc"]])("injected")
            side = run_async_side(spec, flavours=flav, fn_flavours=fnfl, log=False, outer_flavour=outer,
                                  fault=Fault(kind, index, k, exc, "await"), steps=spec.get("steps"))
            probe = side.fns[index] if kind == "fn" else None
            if len(side.term) == 3 and side.term[0] == "raise" and (side.term[2] or (stop_like and probe is not None and probe.faulted)):
                if stop_like:
                    stats["callable_raised_stopasynciteration"] += 1
                judge(side, ("fault", kind, index, k), True)
    stats[f"specs_{tool}"] += 1
    return {"violations": viols, "evals": max(1, evals), "sigs": sigs}


def run_agg(case, stats):
    spec = case["spec"]
    tool = spec["tool"]
    flav = [case["flav"]]
    nfn = len(spec.get("fns", []))
    fnfl = [case.get("fnfl", "def")] * nfn
    viols, sigs, evals = [], [], 0
    head = f"{tool} {spec['params']} fns={spec.get('fns')} src={spec['srcs'][0]} flav={flav}"

    def judge(side, scenario):
        nonlocal evals
        evals += 1
        stats["scenarios"] += 1
        stats[f"scn_agg_{scenario[0]}"] += 1
        if side.foreign:
            viols.append({"key": f"{tool}/foreign-suspension", "msg": side.foreign[0]})
        st = side.srcs[0]
        sigs.append((spec, flav, scenario))
        if not st.released():
            stats["leaks_seen"] += 1
            reason = "raise" if side.term[0] == "raise" else "return"
            viols.append({"key": f"{tool}/leak-on-{reason}",
                          "msg": f"{head} scenario {scenario}: source neither closed nor exhausted when the "
                                 f"aggregation finished with {side.term[:2]}", "detail": {"scenario": scenario}})

    full = run_async_side(spec, flavours=flav, fn_flavours=fnfl, log=False)
    judge(full, ("plain", full.term[0]))
    if nfn and spec["fns"][0] is not None:
        # a function / key that is not callable at all: the TypeError of its first use is an error like any other
        side = run_async_side(spec, flavours=flav, fn_flavours=["notcallable"] * nfn, log=False)
        if side.term[0] == "raise":
            judge(side, ("notcallable", side.term[1]))
    probes = [("src", 0, full.srcs[0].uses)] + [("fn", i, fs.uses) for i, fs in enumerate(full.fns) if fs is not None]
    for kind, index, uses in probes:
        for k in range(1, uses + 1):
            exc = FAULT_TYPES[case["exc"]]("injected")
            side = run_async_side(spec, flavours=flav, fn_flavours=fnfl, log=False, fault=Fault(kind, index, k, exc, "await"))
            judge(side, ("fault", kind, k))
    stats[f"specs_{tool}"] += 1
    return {"violations": viols, "evals": max(1, evals), "sigs": sigs}


# ---------------------------------------------------------------------------
# tee
# ---------------------------------------------------------------------------

def run_tee(case, stats):
    CTX.reset()
    fault = case.get("fault")
    boom = FAULT_TYPES[fault[1]]("source failed") if fault else None
    st = SrcState(0, [Item(i, (0, i)) for i in range(case["len"])], Plan(0, fault[0], boom) if fault else Plan(), log=False)
    src = make_source(st, case["flav"])
    n = case["n"]
    viols = []
    state = {"done": [False] * n, "advanced": [False] * n}
    head = f"tee n={n} len={case['len']} flav={case['flav']} ops={case['ops']} final={case['final']} fault={fault}"
    events = []

    def check(where):
        all_done = all(state["done"])
        # (a generator source that failed has finished by itself: nobody closed it)
        if st.released() and not all_done and not st.ended and not (st.faulted and st.gen is not None):
            viols.append({"key": "tee/source-closed-before-last-child-done",
                          "msg": f"{head}: source closed after {where} although children {state['done']} not all done"})
        if all_done and not st.released():
            never = [i for i in range(n) if not state["advanced"][i]]
            key = "tee/unstarted-child-never-deregisters" if never else "tee/source-not-closed-after-last-child"
            viols.append({"key": key, "msg": f"{head}: all children done after {where} but the source is still open "
                                             f"(children never advanced: {never})"})

    async def main():
        handle = A.tee(src, n)
        children = list(handle)
        ops = list(case["ops"])
        if case["final"] == "close_all":
            ops += [["close", c] for c in range(n)]
        elif case["final"] == "close_all_reversed":
            ops += [["close", c] for c in reversed(range(n))]
        elif case["final"] == "close_handle":
            ops += [["close_handle"]]
        for op in ops:
            try:
                if op[0] == "next":
                    c = op[1]
                    if not state["done"][c]:
                        state["advanced"][c] = True
                    try:
                        await children[c].__anext__()
                    except StopAsyncIteration:
                        state["done"][c] = True
                    except BaseException as exc:  # noqa: BLE001
                        if exc is not boom:
                            raise
                        # the source's failure, handed to the child that was fetching: that child has ended
                        state["done"][c] = True
                        stats["tee_children_ended_by_a_source_failure"] += 1
                elif op[0] == "close":
                    await children[op[1]].aclose()
                    state["done"][op[1]] = True
                else:
                    await handle.aclose()
                    state["done"] = [True] * n
            except BaseException as exc:  # noqa: BLE001
                viols.append({"key": f"tee/{op[0]}-raises", "msg": f"{head}: {op} raised {type(exc).__name__}: {exc}"})
                return
            events.append(op)
            check(op)

    drive(main())
    stats["scenarios"] += 1
    stats["scn_tee"] += 1
    if CTX.foreign:
        viols.append({"key": "tee/foreign-suspension", "msg": CTX.foreign[0]})
    if not all(state["advanced"]) and all(state["done"]):
        stats["tee_all_done_with_unstarted_child"] += 1
    if all(state["done"]):
        stats["tee_all_children_done"] += 1
    return {"violations": viols, "evals": 1, "nontrivial": bool(case["ops"]) or case["final"] != "none",
            "sig": tuple(map(str, (case["n"], case["len"], case["flav"], case["ops"], case["final"])))}


# ---------------------------------------------------------------------------
# groupby
# ---------------------------------------------------------------------------

_GB_FAULTS = {"Injected": Injected, "StopAsyncIteration": StopAsyncIteration, "StopIteration": StopIteration,
              "GeneratorExit": GeneratorExit, "RuntimeError": RuntimeError}


def run_groupby(case, stats):
    """groupby closed after any prefix of use: also after its source or key failed, and after a cancelled advance."""
    keys = case["keys"]
    fault = case.get("fault")
    viols = []
    head = f"groupby keys={keys} key={case['key']} flav={case['flav']} ops={case['ops']} fault={fault} {case.get('fault_exc')}"

    def one(susp=0, cancel_at=None):
        CTX.reset()
        plan = Plan(susp)
        if fault and fault[0] == "src":
            plan = Plan(susp, fault[1], Injected("groupby source"))
        st = SrcState(0, [Item(k, (0, i)) for i, k in enumerate(keys)], plan, log=False)
        src = make_source(st, case["flav"])
        info = {"groups": 0, "raised": 0, "cancelled": False}
        calls = {"n": 0}

        def key_fault():
            calls["n"] += 1
            if fault and fault[0] == "key" and calls["n"] == fault[1]:
                raise _GB_FAULTS[case.get("fault_exc", "Injected")]("groupby key")

        async def akey(x):
            key_fault()
            if susp:
                await Suspend("key", susp)
            return x.key // 2

        def skey(x):
            key_fault()
            return IMPLS[case["key"]](x)

        async def main():
            if case["key"] is None:
                gb = A.groupby(src)
            elif case["key"] == "async":
                gb = A.groupby(src, key=akey)
            else:
                gb = A.groupby(src, key=skey)
            groups = []
            try:
                for op in case["ops"]:
                    try:
                        if op == "adv":
                            _, g = await gb.__anext__()
                            groups.append(g)
                        elif op == "grp" and groups:
                            await groups[-1].__anext__()
                        elif op == "oldgrp" and len(groups) > 1:
                            await groups[0].__anext__()
                    except StopAsyncIteration:
                        pass
                    except (Injected, StopIteration, GeneratorExit, RuntimeError):
                        info["raised"] += 1
            except Cancel:
                # the consumer's own cancellation handler: it still closes what it opened
                info["cancelled"] = True
            info["groups"] = len(groups)
            try:
                await gb.aclose()
            except BaseException as exc:  # noqa: BLE001
                kind = "unstarted" if not groups else "started"
                viols.append({"key": f"groupby/aclose-raises-{kind}",
                              "msg": f"{head} cancel_at={cancel_at}: aclose raised {type(exc).__name__}: {exc}"})
                return
            if not (st.released() or (st.faulted and st.gen is not None)):
                how = "a cancelled advance and " if info["cancelled"] else "its source/key failed and " if info["raised"] else ""
                key = "groupby/leak-on-close" + ("-after-cancel" if info["cancelled"] else "-after-fault" if info["raised"] else "")
                viols.append({"key": key, "msg": f"{head} cancel_at={cancel_at}: source still open after {how}groupby.aclose()"})

        drive(main(), cancel_at=cancel_at)
        nsusp = CTX.suspensions
        run_finalizers()
        if CTX.foreign:
            viols.append({"key": "groupby/foreign-suspension", "msg": CTX.foreign[0]})
        return info, nsusp

    info, res = one()
    stats["scenarios"] += 1
    stats["scn_groupby"] += 1
    evals = 1
    if not info.get("groups"):
        stats["groupby_closed_unstarted"] += 1
    if info["raised"]:
        stats["groupby_closed_after_fault"] += 1
    if case.get("cancel") and case["flav"] != "async_gen":
        # (an async generator source cancelled inside its own await is finished by the cancellation itself)
        base, nsusp = one(susp=1)
        for i in range(1, nsusp + 1):
            inf, _ = one(susp=1, cancel_at=i)
            evals += 1
            if inf["cancelled"]:
                stats["groupby_closed_after_cancel"] += 1
    return {"violations": viols, "evals": evals, "nontrivial": True,
            "sig": tuple(map(str, (keys, case["key"], case["flav"], case["ops"], fault, case.get("cancel"))))}


# ---------------------------------------------------------------------------
# sequences of uses: what an earlier use taught the library must not decide a later one
# ---------------------------------------------------------------------------

SEQ_ITER_TOOLS = {
    "enumerate": lambda s: A.enumerate(s), "filter": lambda s: A.filter(None, s), "islice": lambda s: A.islice(s, 5),
    "accumulate": lambda s: A.accumulate(s, lambda a, b: b), "pairwise": lambda s: A.pairwise(s),
    "batched": lambda s: A.batched(s, 2), "takewhile": lambda s: A.takewhile(lambda x: True, s),
    "dropwhile": lambda s: A.dropwhile(lambda x: False, s), "map": lambda s: A.map(lambda x: x, s),
    "zip": lambda s: A.zip(s), "chain": lambda s: A.chain(s), "zip_longest": lambda s: A.zip_longest(s),
    "merge": lambda s: A.merge(s, key=lambda x: x.key), "starmap": lambda s: A.starmap(lambda *a: a, A.zip(s)),
    "compress": lambda s: A.compress(s, [1, 1, 1, 1]), "groupby": lambda s: A.groupby(s), "tee": lambda s: A.tee(s, 1)[0],
}
SEQ_AGG_TOOLS = {
    "list": lambda s: A.list(s), "tuple": lambda s: A.tuple(s), "set": lambda s: A.set(s), "min": lambda s: A.min(s, key=lambda x: x.key),
    "max": lambda s: A.max(s, key=lambda x: x.key), "all": lambda s: A.all(s), "any": lambda s: A.any(s),
    "reduce": lambda s: A.reduce(lambda a, b: b, s), "sorted": lambda s: A.sorted(s, key=lambda x: x.key),
    "nlargest": lambda s: A.nlargest(s, 2, key=lambda x: x.key), "nsmallest": lambda s: A.nsmallest(s, 2, key=lambda x: x.key),
}


def run_sequence(case, stats):
    """Several uses, one after the other, of sources whose CLASS is the same but whose instances differ.

    The adapter class is created afresh for every case; its instances forward everything but iteration to what
    they wrap, which may or may not have an ``aclose``.  Each use is judged on its own.
    """
    CTX.reset()

    class Adapter:
        def __init__(self, inner):
            self._inner = inner

        def __aiter__(self):
            return self

        def __anext__(self):
            return self._inner.__anext__()

        def __getattr__(self, name):
            if name.startswith("__"):
                raise AttributeError(name)
            return getattr(self._inner, name)

    viols = []
    head = f"uses in sequence {case['uses']}"
    for n, (tool, inner_kind, mode) in enumerate(case["uses"]):
        st = SrcState(n, [Item(k, (n, k)) for k in range(4)], Plan(), log=False)
        inner = make_source(st, {"bare": "async_class_bare", "class": "async_class", "gen": "async_gen"}[inner_kind])
        src = Adapter(inner)

        async def use():
            if tool in SEQ_AGG_TOOLS:
                await SEQ_AGG_TOOLS[tool](src)
                return
            it = SEQ_ITER_TOOLS[tool](src)
            if mode == "exhaust":
                async for _ in it:
                    pass
            else:
                await it.__anext__()
            await it.aclose()

        try:
            drive(use())
        except BaseException as exc:  # noqa: BLE001
            viols.append({"key": f"{tool}/adapter-source-use-raised",
                          "msg": f"{head}: use {n} ({tool} over an adapter around a {inner_kind} iterator, {mode}) raised {exc!r}"})
            continue
        if inner_kind != "bare" and not st.released():
            viols.append({"key": f"{tool}/leak-of-adapter-source",
                          "msg": f"{head}: use {n} ({tool} over an adapter around a {inner_kind} iterator, {mode}) left its "
                                 f"source open"})
        stats["sequence_uses"] += 1
    run_finalizers()
    if CTX.foreign:
        viols.append({"key": "sequence/foreign-suspension", "msg": CTX.foreign[0]})
    stats["scenarios"] += 1
    stats["scn_sequence"] += 1
    return {"violations": viols, "evals": len(case["uses"]), "nontrivial": True, "sig": ("sequence", str(case["uses"]))}


def run_case(case, stats: Counter):
    kind = case["kind"]
    if kind == "sequence":
        return run_sequence(case, stats)
    if kind == "iter":
        return run_iter(case, stats)
    if kind == "agg":
        return run_agg(case, stats)
    if kind == "tee":
        return run_tee(case, stats)
    return run_groupby(case, stats)


def finish(stats, tier):
    for need in ("scn_close", "scn_fault", "scn_athrow", "scn_exhaust", "scn_agg_fault", "scn_tee", "scn_groupby",
                 "tee_all_children_done", "groupby_closed_unstarted", "groupby_closed_after_fault", "groupby_closed_after_cancel",
                 "scn_sequence"):
        if not stats.get(need):
            return f"deciding counter {need} is zero"
    return None
