"""C20 — streaming tools retain a bounded number of items however long the stream."""
from __future__ import annotations

import gc
import random
import weakref
from collections import Counter

import asyncstdlib as A

from ..loop import CTX, drive, Driver, Suspend, run_finalizers
from ..probes import VLock

ID = "C20"
LEVEL = "exploration"
ANCHORS = ["builtins.py", "itertools.py", "heapq.py", "functools.py"]
RULE = ("weak-reference census: every streaming tool (zip, zip strict, map, filter, enumerate, iter+sentinel, accumulate, "
        "batched, chain, chain.from_iterable, compress, dropwhile, filterfalse, islice, pairwise, starmap, takewhile, "
        "zip_longest, merge, groupby, tee) and single-pass aggregation (all, any, sum, min, max, reduce, nlargest, "
        "nsmallest) is fed streams of N fresh weak-referenceable items created on demand (N = 60..300 quick, up to "
        "2000 thorough); the consumer drops every received item; after EVERY consumer step and at EVERY pull of a "
        "source the number of already served items still alive (weakref callbacks; a gc.collect() is run before a "
        "bound is declared exceeded) must be <= 2*sources + 2 + window (window: batch size, n of nlargest/nsmallest, "
        "one head per source for merge, lead + 1 per live child for tee); tee with lockstep, leading/lagging and "
        "early-closed children. cycle, sorted and the collection builders are excluded as documented. "
        "one evaluation = one stream run; non-trivial = every run (N >= 60); distinct = (tool, N, parameters)")
RULE += (' Also: sums of list pages onto a list start.')
RULE += (' Also: strict batches (window n, also when the stream ends off a batch boundary).')
RULE += (' Also: chain.from_iterable over a long lazy stream of pages (closeable class iterators keeping their records; plain iterators); groupby without key / identity key read group by group; tee with a real lock where a started child is closed while its sibling holds the lock mid-fetch and that close is cancelled at each suspension point; all streams report len() == 0 (current backlog).')
RULE += (' Also: sized, lazily produced synchronous datasets as sources of every streaming tool.')
RULE += (' Also: every tee pattern also over a source without aclose.')
RULE += (' Also: three started tee children, two closed one after the other in every order.')
RULE += (' Also: text / bytes pieces summed over a long stream.')
RULE += (' Also: partially ordered / NaN keys in nlargest and nsmallest.')
RULE += (' Also: the consumer calling other tools once per item with closures / partials bound to that item.')
RULE += (' Also: long lazily produced streams of awaitable jobs (coroutines, future-like objects) bound to their record, through await_each and any_iter.')
RULE += (' Also: compress with a long lazily produced synchronous selector stream.')
RULE += (' Also: min / max / nsmallest with async def keys.')
RULE += (' Also: max / min over a long plateau of ties.')
ASSUMPTIONS = ["the bound's constant was read off the unchanged tree with slack; a buffering tool grows linearly and "
               "crosses it within a few steps, so the verdict does not depend on the exact constant"]
EXHAUSTIVE = {"quick": False, "thorough": False}
MAX_SHARDS = 16
SIZES = {"quick": [60, 150, 300], "thorough": [60, 150, 300, 700, 1200, 2000]}


class WStr(str):
    """A piece of text that can be weakly referenced."""


class WBytes(bytearray):
    pass


class WList(list):
    """A page of records (a list that can be weakly referenced)."""


class WTuple(tuple):
    pass


class W:
    """Fresh stream item: ordered by key, supports + and truthiness."""

    __slots__ = ("key", "truth", "__weakref__")

    def __init__(self, key, truth=True):
        self.key = key
        self.truth = truth

    def __lt__(self, other):
        return self.key < other.key

    def __gt__(self, other):
        return self.key > other.key

    def __eq__(self, other):
        return isinstance(other, W) and self.key == other.key

    def __hash__(self):
        return hash(self.key)

    def __bool__(self):
        return self.truth

    def __add__(self, other):
        return W(self.key + other.key)


class Census:
    def __init__(self, bound):
        self.alive = 0
        self.peak = 0
        self.bound = bound
        self.viol = None
        self.refs = []
        self.samples = 0

    def track(self, item):
        self.alive += 1
        self.refs.append(weakref.ref(item, self._dead))

    def _dead(self, _ref):
        self.alive -= 1

    def sample(self, where, held=0):
        """``held``: items legitimately alive right now (e.g. the one being handed over)."""
        self.samples += 1
        n = self.alive - held
        if n > self.bound:
            gc.collect()
            n = self.alive - held
        if n > self.peak:
            self.peak = n
        if n > self.bound and self.viol is None:
            self.viol = f"{n} served items alive at {where} (bound {self.bound})"


class BareStream:
    """Async iterator creating fresh items on demand; census sampled at every pull.  Nothing but ``__aiter__`` and
    ``__anext__`` (a feed / queue adapter): there is nothing to close."""

    def __init__(self, census, n, make=None, name="s"):
        self.census, self.n, self.i, self.name = census, n, 0, name
        self.make = make or (lambda i: W(i))

    def __aiter__(self):
        return self

    def __len__(self):
        return 0  # the current backlog of a live feed, not its length

    async def __anext__(self):
        self.census.sample(f"pull {self.i} of {self.name}")
        if self.i >= self.n:
            raise StopAsyncIteration
        item = self.make(self.i)
        self.i += 1
        if isinstance(item, tuple) and not isinstance(item, WTuple):
            for x in item:
                if isinstance(x, W):
                    self.census.track(x)
        else:
            self.census.track(item)
        return item


class Stream(BareStream):
    """... with an ``aclose``."""

    async def aclose(self):
        pass


class SyncDataset:
    """A synchronous, SIZED collection that produces its records lazily (a dataset / record store with ``__len__``
    and ``__iter__``): its length is known, its items exist only while somebody holds them."""

    def __init__(self, census, n, make=None, name="d"):
        self.census, self.n, self.name = census, n, name
        self.make = make or (lambda i: W(i))

    def __len__(self):
        return self.n

    def __iter__(self):
        for i in range(self.n):
            self.census.sample(f"pull {i} of {self.name}")
            item = self.make(i)
            for x in (item if isinstance(item, tuple) and not isinstance(item, WTuple) else (item,)):
                if isinstance(x, (W, WStr, WBytes, WList, WTuple)):
                    self.census.track(x)
            yield item
            del item
        self.census.sample(f"end of {self.name}")


class Page:
    """A closeable class-based async iterator that KEEPS its records (a cursor, a result page, an adapter)."""

    def __init__(self, items):
        self.items, self.i, self.closed = items, 0, 0

    def __aiter__(self):
        return self

    async def __anext__(self):
        if self.i >= len(self.items):
            raise StopAsyncIteration
        self.i += 1
        return self.items[self.i - 1]

    async def aclose(self):
        self.closed += 1
        return True


class PageStream:
    """A long lazy stream of pages of ``size`` fresh items each."""

    def __init__(self, census, n, size=5, sync_pages=False):
        self.census, self.n, self.size, self.i, self.sync_pages = census, n, size, 0, sync_pages

    def __aiter__(self):
        return self

    async def __anext__(self):
        self.census.sample(f"pull of page starting at {self.i}")
        if self.i >= self.n:
            raise StopAsyncIteration
        items = [W(k) for k in range(self.i, min(self.n, self.i + self.size))]
        self.i += self.size
        for x in items:
            self.census.track(x)
        return iter(items) if self.sync_pages else Page(items)

    async def aclose(self):
        pass


# name -> (nsources, window, build(streams, n) -> async iterator or awaitable, kind)
async def _async_key(x):
    return x.key


async def _async_neg_key(x):
    return -x.key


def _tools():
    T = {}
    always = lambda x: True  # noqa: E731
    never = lambda x: False  # noqa: E731
    T["zip"] = (2, 0, lambda S, n: A.zip(*S), "iter", {})
    T["zip_strict"] = (2, 0, lambda S, n: A.zip(*S, strict=True), "iter", {})
    T["map"] = (2, 0, lambda S, n: A.map(lambda a, b: a.key + b.key, *S), "iter", {})
    T["map_items"] = (1, 0, lambda S, n: A.map(lambda a: a, *S), "iter", {})
    T["filter"] = (1, 0, lambda S, n: A.filter(lambda x: x.key % 3, S[0]), "iter", {})
    T["filter_none"] = (1, 0, lambda S, n: A.filter(None, S[0]), "iter", {})
    T["enumerate"] = (1, 0, lambda S, n: A.enumerate(S[0]), "iter", {})
    T["accumulate"] = (1, 0, lambda S, n: A.accumulate(S[0]), "iter", {})
    T["accumulate_max"] = (1, 1, lambda S, n: A.accumulate(S[0], lambda a, b: b), "iter", {})
    T["batched5"] = (1, 5, lambda S, n: A.batched(S[0], 5), "iter", {})
    T["batched17"] = (1, 17, lambda S, n: A.batched(S[0], 17), "iter", {})
    T["batched5_strict"] = (1, 5, lambda S, n: A.batched(S[0], 5, strict=True), "iter", {})
    T["batched17_strict"] = (1, 17, lambda S, n: A.batched(S[0], 17, strict=True), "iter", {})
    T["chain"] = (2, 0, lambda S, n: A.chain(*S), "iter", {})
    T["chain_from_iterable"] = (2, 0, lambda S, n: A.chain.from_iterable(S), "iter", {})
    # a long lazy stream of inner iterables, each a closeable object that keeps its records / a plain iterator
    T["chain_from_iterable_pages"] = (1, 10, lambda S, n: A.chain.from_iterable(S[0]), "iter", {"pages": "class"})
    T["chain_from_iterable_sync_pages"] = (1, 10, lambda S, n: A.chain.from_iterable(S[0]), "iter", {"pages": "sync"})
    # a long, lazily produced SYNCHRONOUS outer stream of freshly built inner lists
    T["chain_from_iterable_lazy_sync_outer"] = (0, 8, None, "chain_lazy_outer", {})
    T["compress"] = (1, 0, lambda S, n: A.compress(S[0], [i % 2 for i in range(n)]), "iter", {})
    # the selectors are a long, lazily produced SYNCHRONOUS stream of records of their own (and the data is one)
    T["compress_lazy_sync_selectors"] = (1, 1, None, "compress_lazy", {"data": "async"})
    T["compress_lazy_sync_both"] = (0, 2, None, "compress_lazy", {"data": "sync"})
    T["dropwhile"] = (1, 0, lambda S, n: A.dropwhile(lambda x: x.key < n // 2, S[0]), "iter", {})
    T["takewhile"] = (1, 0, lambda S, n: A.takewhile(always, S[0]), "iter", {})
    T["filterfalse"] = (1, 0, lambda S, n: A.filterfalse(lambda x: x.key % 3 == 0, S[0]), "iter", {})
    T["islice"] = (1, 0, lambda S, n: A.islice(S[0], 5, None, 3), "iter", {})
    T["islice_bigstart"] = (1, 0, lambda S, n: A.islice(S[0], n // 2, None, 2), "iter", {})
    T["islice_window"] = (1, 0, lambda S, n: A.islice(S[0], n // 3, n - 5, 3), "iter", {})
    T["pairwise"] = (1, 1, lambda S, n: A.pairwise(S[0]), "iter", {})
    T["starmap"] = (1, 0, lambda S, n: A.starmap(lambda a, b: a.key + b.key, S[0]), "iter", {"tuples": True})
    T["zip_longest"] = (2, 0, lambda S, n: A.zip_longest(*S), "iter", {"uneven": True})
    T["merge"] = (3, 3, lambda S, n: A.merge(*S), "iter", {})
    T["merge_key_reverse"] = (2, 2, lambda S, n: A.merge(*S, key=lambda x: -x.key, reverse=True), "iter", {})
    T["groupby"] = (1, 1, None, "groupby", {})
    # no key function: the key of a group IS one of its items; every group read to its end
    T["groupby_nokey"] = (1, 4, None, "groupby_nokey", {"runs": 3})
    T["groupby_identity_key"] = (1, 4, None, "groupby_nokey", {"runs": 1, "identity": True})
    T["groupby_failing_key"] = (1, 1, None, "groupby_failing_key", {})
    # the CONSUMER of a long stream calls other tools once per item, with a fresh closure / partial bound to that item
    # (a nearest-reference look-up, a per-chunk check): nothing of a finished call is kept - not its callable either
    T["per_item_tool_calls"] = (1, 1, None, "per_item", {})
    T["iter_sentinel"] = (1, 0, None, "iter_sentinel", {})
    # a long, lazily produced stream of awaitable jobs, each bound to its record (``(process(x) for x in records)``):
    # one job is created, awaited and handed on at a time
    T["await_each_lazy_jobs"] = (1, 1, None, "jobs", {"via": "await_each"})
    T["any_iter_lazy_jobs"] = (1, 1, None, "jobs", {"via": "any_iter"})
    T["any_iter_lazy_future_jobs"] = (1, 1, None, "jobs", {"via": "any_iter", "future": True})
    T["all"] = (1, 0, lambda S, n: A.all(S[0]), "agg", {})
    T["any"] = (1, 0, lambda S, n: A.any(S[0]), "agg", {"falsy": True})
    T["sum"] = (1, 0, lambda S, n: A.sum(S[0], W(0)), "agg", {})
    # pieces of text / bytes added up (the library, unlike the builtin, accepts a str start): one pass, the running
    # total and the piece at hand - not the whole stream kept until its end
    T["sum_text"] = (1, 0, lambda S, n: A.sum(S[0], ""), "agg", {"text": "str"})
    T["sum_bytes"] = (1, 0, lambda S, n: A.sum(S[0], b""), "agg", {"text": "bytes"})
    # pages of records concatenated onto a list / tuple start: the pages themselves are let go one by one
    T["sum_lists"] = (1, 0, lambda S, n: A.sum(S[0], []), "agg", {"text": "list"})
    T["min"] = (1, 1, lambda S, n: A.min(S[0]), "agg", {})
    T["max"] = (1, 1, lambda S, n: A.max(S[0], key=lambda x: x.key), "agg", {})
    # a long plateau: every item ties with the running extreme - one of them is kept, not all
    T["max_plateau"] = (1, 1, lambda S, n: A.max(S[0], key=lambda x: 0), "agg", {})
    T["min_plateau_nokey"] = (1, 1, lambda S, n: A.min(S[0]), "agg", {"runs": 10 ** 9})
    T["max_async_key_descending"] = (1, 1, lambda S, n: A.max(S[0], key=_async_neg_key), "agg", {})
    T["min_async_key_ascending"] = (1, 1, lambda S, n: A.min(S[0], key=_async_key), "agg", {})
    T["sorted_async_key_head"] = (1, 1, lambda S, n: A.nsmallest(S[0], 1, key=_async_key), "agg", {})
    T["reduce"] = (1, 1, lambda S, n: A.reduce(lambda a, b: b, S[0]), "agg", {})
    T["nlargest5"] = (1, 5, lambda S, n: A.nlargest(S[0], 5), "agg", {})
    # keys that are not totally ordered (disjoint sets; NaN gaps): whatever such keys do to the RESULT, the selection still
    # holds n candidates and not the stream
    T["nlargest5_partial_order"] = (1, 5, lambda S, n: A.nlargest(S[0], 5, key=lambda x: frozenset((x.key,))), "agg", {})
    T["nsmallest5_nan_gaps"] = (1, 5, lambda S, n: A.nsmallest(S[0], 5, key=lambda x: float("nan") if x.key % 3 == 0 else float(x.key)), "agg", {})
    T["nlargest40"] = (1, 40, lambda S, n: A.nlargest(S[0], 40, key=lambda x: x.key % 97), "agg", {})
    T["nsmallest40"] = (1, 40, lambda S, n: A.nsmallest(S[0], 40, key=lambda x: -x.key), "agg", {})
    T["nsmallest9"] = (1, 9, lambda S, n: A.nsmallest(S[0], 9, key=lambda x: -x.key), "agg", {})
    return T


TOOLS = _tools()
TEE_PATTERNS = ["lockstep", "lead8", "lag_then_close", "close_unstarted", "three_children", "handle_close_midway",
                "biglag_close_last", "biglag_close_middle", "biglag_close_first",
                # three started children, two of them closed one after the other (every order), the third reads on
                "close_pair_01", "close_pair_10", "close_pair_02", "close_pair_20", "close_pair_12", "close_pair_21",
                # two consumer tasks and a real lock: a started child is closed while its sibling holds the lock in the
                # middle of a fetch, and that close is itself cancelled at each of its suspension points
                "locked_close_while_sibling_fetches_1", "locked_close_while_sibling_fetches_2", "locked_close_while_sibling_fetches_3"]


def cases(tier, seed, shard, nshards):
    idx = 0
    for n in SIZES[tier]:
        for name in TOOLS:
            idx += 1
            if idx % nshards == shard:
                yield {"tool": name, "n": n}
            if not TOOLS[name][4].get("pages"):
                idx += 1
                if idx % nshards == shard:
                    yield {"tool": name, "n": n, "source": "sync_sized"}
        for pat in TEE_PATTERNS:
            idx += 1
            if idx % nshards == shard:
                yield {"tool": "tee", "pattern": pat, "n": n}
            if not pat.startswith("locked_"):
                idx += 1
                if idx % nshards == shard:
                    yield {"tool": "tee", "pattern": pat, "n": n, "source": "bare"}


def run_tool(case, stats):
    CTX.reset()
    name, n = case["tool"], case["n"]
    nsrc, window, build, kind, opt = TOOLS[name]
    census = Census(2 * nsrc + 2 + window)
    make = None
    if opt.get("tuples"):
        make = lambda i: (W(i), W(i))  # noqa: E731
    if opt.get("falsy"):
        make = lambda i: W(i, truth=False)  # noqa: E731
    if opt.get("text"):
        make = {"str": lambda i: WStr(f"{i:04d}"), "bytes": lambda i: WBytes(b"%04d" % i),
                "list": lambda i: WList([i]), "tuple": lambda i: WTuple((i,))}[opt["text"]]
    if opt.get("runs"):
        make = lambda i: W(i // opt["runs"])  # noqa: E731 - runs of equal items
    streams = [Stream(census, n if not (opt.get("uneven") and s) else n // 2, make, f"s{s}") for s in range(nsrc)]
    if opt.get("pages"):
        streams = [PageStream(census, n, 5, sync_pages=opt["pages"] == "sync")]
    elif case.get("source") == "sync_sized":
        streams = [SyncDataset(census, n if not (opt.get("uneven") and s) else n // 2, make, f"d{s}") for s in range(nsrc)]
    produced = {"n": 0}

    async def main():
        if kind == "agg":
            res = await build(streams, n)
            del res
            census.sample("after return")
        elif kind == "groupby":
            async for key, group in A.groupby(streams[0], key=lambda x: x.key // 7):
                async for item in group:
                    produced["n"] += 1
                    del item
                    census.sample("after group item")
                del group
        elif kind == "per_item":
            import functools as _ft

            def near(item, r):
                return abs(r - item.key)

            async def anear(item, r):
                return abs(r - item.key)

            async for item in A.iter(streams[0]):
                await A.min([1, 2, 3], key=lambda r, item=item: abs(r - item.key))
                await A.max([1, 2, 3], key=_ft.partial(anear, item))
                await A.list(A.map(_ft.partial(near, item), [1, 2]))
                await A.any(A.filter(lambda r, item=item: r > item.key, [1]))
                await A.reduce(lambda a, b, item=item: a, [1, 2])
                await A.sorted([2, 1], key=_ft.partial(near, item))
                await A.nlargest([2, 1], 1, key=lambda r, item=item: r)
                produced["n"] += 1
                del item
                census.sample("after the per-item tool calls")
        elif kind == "groupby_nokey":
            gb = A.groupby(streams[0], key=(lambda x: x)) if opt.get("identity") else A.groupby(streams[0])
            async for key, group in gb:
                del key
                async for item in group:
                    produced["n"] += 1
                    del item
                    census.sample("after group item")
                del group
                census.sample("after a group was read to its end")
        elif kind == "groupby_failing_key":
            # a key that fails for every 10th item; the consumer catches the error and carries on
            # (groupby is class based and survives it) - whatever happens to those items, they must not pile up
            state = {"failed": set()}

            def key(x):
                if x.key % 10 == 9 and x.key not in state["failed"]:
                    state["failed"].add(x.key)
                    raise LookupError(x.key)
                return x.key // 7

            gb = A.groupby(streams[0], key=key)
            budget = 6 * n
            while budget:
                budget -= 1
                try:
                    _, group = await gb.__anext__()
                except StopAsyncIteration:
                    break
                except LookupError:
                    census.sample("after a failed key (groupby)")
                    continue
                while budget:
                    budget -= 1
                    try:
                        item = await group.__anext__()
                    except StopAsyncIteration:
                        break
                    except LookupError:
                        census.sample("after a failed key (group)")
                        continue
                    produced["n"] += 1
                    del item
                    census.sample("after group item")
                del group
        elif kind == "chain_lazy_outer":
            def pages():
                for i in range(0, n, 4):
                    page = [W(j) for j in range(i, min(n, i + 4))]
                    for record in page:
                        census.track(record)
                    yield page
                    del page, record

            async for item in A.chain.from_iterable(pages()):
                produced["n"] += 1
                del item
                census.sample("after an item of a page")
        elif kind == "compress_lazy":
            def records(tag, truth):
                for i in range(n):
                    record = W(i, truth=truth(i))
                    census.track(record)
                    yield record
                    del record

            selectors = records("sel", lambda i: i % 2 == 0)
            data = streams[0] if opt["data"] == "async" else records("data", lambda i: True)
            async for item in A.compress(data, selectors):
                produced["n"] += 1
                del item
                census.sample("after a selected item")
        elif kind == "jobs":
            class Job:
                """A future-like job that keeps its record (and hands it out as its result)."""

                def __init__(self, record):
                    self.record = record

                def __await__(self):
                    return self.record
                    yield  # pragma: no cover

            async def process(record):
                return record

            def jobs():
                for i in range(n):
                    record = W(i)
                    census.track(record)
                    job = Job(record) if opt.get("future") else process(record)
                    del record
                    yield job
                    del job

            stream_of_jobs = jobs()
            tool = A.await_each(stream_of_jobs) if opt["via"] == "await_each" else A.any_iter(stream_of_jobs)
            async for item in tool:
                produced["n"] += 1
                del item
                census.sample("after the result of a job")
        elif kind == "iter_sentinel":
            state = {"i": 0}

            async def feed():
                census.sample("feed")
                item = W(state["i"])
                state["i"] += 1
                census.track(item)
                return item

            async for item in A.iter(feed, W(n)):
                produced["n"] += 1
                del item
                census.sample("after item")
        else:
            it = build(streams, n)
            try:
                async for item in it:
                    produced["n"] += 1
                    del item
                    census.sample(f"after output {produced['n']}")
            except ValueError:
                # (strict batches over a stream that does not end on a batch boundary: the end the tool promises)
                if not name.endswith("_strict"):
                    raise

    drive(main())
    return census, produced["n"]


def run_tee(case, stats):
    CTX.reset()
    n, pat = case["n"], case["pattern"]
    nchild = 3 if pat == "three_children" or pat.startswith("close_pair_") else 2
    lead = 8 if pat in ("lead8", "lag_then_close") else 1
    census = Census(2 + 2 + lead + nchild)
    stream = BareStream(census, n) if case.get("source") == "bare" else Stream(census, n)
    if case.get("source") == "bare":
        stats["tee_runs_over_a_source_without_aclose"] += 1
    info = {}

    async def main():
        if pat.startswith("biglag_close"):
            # one child leads by half the stream, a started lagging child is then closed while the
            # leader does NOT fetch again: the backlog held for the closed child must be released at once
            handle3 = A.tee(stream, 3)  # kept for the whole run, like ``async with tee(...) as children``
            info["handle"] = handle3
            kids3 = list(handle3)
            lagger = {"biglag_close_last": 2, "biglag_close_middle": 1, "biglag_close_first": 0}[pat]
            leader = 0 if lagger != 0 else 2
            other = 3 - lagger - leader
            census.bound = 2 + 2 + (n // 2) + 3
            item = await A.anext(kids3[lagger])
            del item
            for _ in range(n // 2):
                item = await A.anext(kids3[leader])
                del item
                item = await A.anext(kids3[other])
                del item
            census.sample("leader and one follower half way, third child lagging")
            await kids3[lagger].aclose()
            census.bound = 2 + 2 + 1 + 3
            census.sample("right after closing the lagging child (no further fetch)")
            async for item in kids3[leader]:
                del item
                item = await A.anext(kids3[other], None)
                del item
                census.sample("after the close")
            return
        handle = A.tee(stream, nchild)
        kids = list(handle)
        if pat == "close_unstarted":
            await kids[1].aclose()
            async for item in kids[0]:
                del item
                census.sample("a only, b closed before its first advance")
            return
        if pat.startswith("close_pair_"):
            first, second = int(pat[-2]), int(pat[-1])
            reader = 3 - first - second
            for k in kids:
                item = await A.anext(k, None)
                del item
            census.sample("all three started")
            await kids[first].aclose()
            item = await A.anext(kids[reader], None)
            del item
            await kids[second].aclose()
            census.bound = 2 + 2 + 1 + 1
            async for item in kids[reader]:
                del item
                census.sample("one reader left, two siblings closed")
            return
        if pat == "handle_close_midway":
            for _ in range(n // 2):
                for k in kids:
                    item = await A.anext(k)
                    del item
                census.sample("lockstep")
            await handle.aclose()
            census.sample("after handle close")
            return
        # leader runs ``lead`` ahead, then all advance in lockstep
        for _ in range(lead - 1):
            item = await A.anext(kids[0], None)
            del item
        closed_lagger = False
        for step in range(n):
            for c, k in enumerate(kids):
                if closed_lagger and c == 1:
                    continue
                item = await A.anext(k, None)
                del item
            census.sample(f"step {step}")
            if pat == "lag_then_close" and step == n // 3 and not closed_lagger:
                await kids[1].aclose()
                closed_lagger = True
                census.bound = 2 + 2 + 1 + nchild  # the closed child must not hold the lead any more
                census.sample("after closing the lagging child")

    drive(main())
    return census, n


class SuspendingStream(Stream):
    async def __anext__(self):
        await Suspend(("src", self.i), 1)
        return await Stream.__anext__(self)


def run_tee_locked(case, stats):
    n = case["n"]
    asteps = int(case["pattern"][-1])
    result = {"census": None, "cancel_points": 0}

    def execute(cancel_at):
        CTX.reset()
        census = Census(2 + 2 + 1 + 2)
        stream = SuspendingStream(census, n)
        lock = VLock("tee")
        a, b = A.tee(stream, 2, lock=lock)
        info = {"phase": 1, "a_steps": 0}

        async def leader():
            async for item in a:
                del item
                census.sample("leader step, sibling closed")

        async def closer():
            item = await A.anext(b)
            del item
            info["phase"] = 2
            await Suspend("closer-pause", 1)  # lets the sibling start its fetch
            info["resumes_at_close"] = tb.resumes
            try:
                await b.aclose()
            finally:
                info["phase"] = 4

        def choose(runnable):
            # B takes its first item; A then starts a fetch (holds the lock, waits in the source); B closes; A finishes
            if info["phase"] == 1:
                return 1 if 1 in runnable else runnable[0]
            if info["phase"] == 2:
                if info["a_steps"] < asteps and 0 in runnable:
                    info["a_steps"] += 1
                    return 0
                info["phase"] = 3
            if info["phase"] == 3 and 1 in runnable:
                return 1
            return runnable[0]

        driver = Driver(choose)
        driver.spawn("leader", leader())
        tb = driver.spawn("closer", closer(), cancel_at=cancel_at)
        driver.run()
        run_finalizers()
        if driver.deadlock:
            census.viol = census.viol or "tasks blocked forever"
        for t in driver.tasks:
            if t.exc is not None and t.exc is not t.cancel_exc:
                census.viol = census.viol or f"task {t.name} ended with {t.exc!r}"
        return census, info, tb.resumes

    census, info, total = execute(None)
    result["census"] = census
    first = info.get("resumes_at_close")
    if first is not None:
        for c in range(first + 1, total + 1):  # suspensions inside aclose() only
            cs, inf, _ = execute(c)
            result["cancel_points"] += 1
            census.samples += cs.samples
            census.refs += cs.refs
            census.peak = max(census.peak, cs.peak)
            if cs.viol and not census.viol:
                census.viol = f"close of the sibling cancelled at its resumption {c}: {cs.viol}"
    stats["tee_locked_close_cancel_points"] += result["cancel_points"]
    stats["tee_locked_runs"] += 1
    return census, n


def run_case(case, stats: Counter):
    if case["tool"] == "tee" and case["pattern"].startswith("locked_"):
        census, produced = run_tee_locked(case, stats)
        label = f"tee/{case['pattern']}"
    elif case["tool"] == "tee":
        census, produced = run_tee(case, stats)
        label = f"tee/{case['pattern']}"
    else:
        census, produced = run_tool(case, stats)
        label = case["tool"]
    stats["stream_runs"] += 1
    stats["census_samples"] += census.samples
    stats["items_streamed"] += len(census.refs)
    stats[f"peak_{label}_n{case['n']}"] = census.peak
    viols = []
    if census.viol:
        key = f"{case['tool']}/retains-items"
        if case["tool"] == "tee" and case["pattern"] == "close_unstarted":
            key = "tee/unstarted-child-never-deregisters"
        viols.append({"key": key, "msg": f"{label} over a stream of {case['n']} items: {census.viol}; peak {census.peak}"})
    if CTX.foreign:
        viols.append({"key": f"{label}/foreign-suspension", "msg": CTX.foreign[0]})
    if len(census.refs) < case["n"] // 2:
        viols.append({"key": "HARNESS/stream-not-consumed", "msg": f"{label}: only {len(census.refs)} of {case['n']} items were pulled"})
    return {"violations": viols, "nontrivial": True, "sig": tuple(sorted(case.items()))}


def finish(stats, tier):
    for need in ("stream_runs", "census_samples", "items_streamed", "tee_locked_runs"):
        if not stats.get(need):
            return f"deciding counter {need} is zero"
    return None
