"""C06 — errors from sources/callables surface unchanged where the stdlib would raise."""
from __future__ import annotations

import random
from collections import Counter

from .. import gen
from ..probes import FAULT_TYPES
from ..tools import run_sync_side, run_async_side, Fault, TOOLS
from ..loop import CTX, drive, Suspend
import asyncstdlib as A

ID = "C06"
LEVEL = "fault_enumeration"
ANCHORS = ["builtins.py", "itertools.py", "heapq.py", "functools.py", "_core.py"]
RULE = ("for each call spec (all iterator tools, groupby operation sequences and aggregations, inputs of length 0..4) a fault-free stdlib run counts "
        "the uses of every probe (source pulls incl. end checks, callable invocations); then EVERY (probe, k) with "
        "k = 1..uses is injected on both sides with one exception object and the async run must deliver the same "
        "items, then that very object, and never use the faulted probe again; exception types rotate over "
        "Exception/TypeError/ValueError/LookupError/BaseException subclasses; sources sync and async flavoured, "
        "callables def / async def (failing at call or inside the awaited part) / callable objects; "
        "one evaluation = one injection; non-trivial = the stdlib twin actually raised the injected object; "
        "distinct = (spec, flavours, probe, k, exception type)")
RULE += (" Also: fault types KeyError/IndexError/AssertionError and instances of Exception/BaseException themselves; a fault planted in a callable call or item pull that the counterpart performs and the library skips (with a differing outcome) is reported; the probes' aclose() returns a truthy value.")
RULE += (' Also: a source whose plain (non-async) __anext__ fails when called.')
RULE += (' Also: builtin callables handing back awaitables (abs, operator.getitem, deque.popleft) against the same builtin behind a lambda, every failing position; class callables.')
RULE += (' Also: the siblings of a failed tee child are compared to the end (class-based asynchronous sources).')
RULE += (' Also: source / callable failures of the kind RuntimeError caused by Stop(Async)Iteration.')
RULE += (' Also: faults that are proper subclasses of the standard exception types.')
RULE += (' Also: inputs in which every occurrence of a key is the very same object.')
RULE += (' Also: asked once more after the failure, the tool does not use the failed source / callable again.')
ASSUMPTIONS = ["Stop(Async)Iteration / IndexError are never injected (their meaning is the language's, not the library's)",
               "closing a faulted source is release, not use"]
EXHAUSTIVE = {"quick": False, "thorough": False}

N_SPECS = {"quick": 40000, "thorough": 1500000}
SRC_FL = ["async_class", "async_gen", "sync_iter", "sync_gen", "getitem_seq", "async_class_bare", "async_iterable", "sync_iterable", "async_class_plainnext", "sync_sequence"]
FN_FL = ["def", "async_def", "callobj", "partial", "awaitobj", "classobj"]
EXC = ["Injected", "TypeError", "ValueError", "LookupError", "InjectedBase", "RuntimeError", "AttributeError", "KeyError",
       "IndexError", "AssertionError", "Exception", "BaseException", "RuntimeError_caused_by_StopIteration",
       "RuntimeError_caused_by_StopAsyncIteration"]


BUILTIN_TOOLS = ["map", "filter", "filterfalse", "takewhile", "dropwhile", "max_key", "min_key", "sorted_key",
                 "groupby_key", "starmap", "iter_popleft", "reduce_getitem", "any_map", "nlargest_key"]


def cases(tier, seed, shard, nshards):
    from . import C16
    rng = random.Random(f"C06-{seed}-{shard}")
    kb = 0
    for tool in BUILTIN_TOOLS:
        for n in (1, 2, 3, 4):
            for k in range(1, n + 2):
                for exc in (["Injected", "TypeError", "KeyError", "InjectedBase"] if tier == "quick" else EXC):
                    kb += 1
                    if kb % nshards == shard:
                        yield {"kind": "builtin_callable", "tool": tool, "n": n, "k": k, "exc": exc, "susp": kb % 2}
    n16 = 0
    for gb in C16.cases(tier, seed, shard, nshards):
        n16 += 1
        if n16 % 16 == 0 and len(gb["ops"]) <= 8:
            if gb["flav"] == "list":
                gb = dict(gb, flav=rng.choice(["async_class", "sync_iter"]))
            yield {"kind": "groupby", "gb": gb, "exc": rng.choice(EXC), "phase": rng.choice(["call", "await"]),
                   "fnfl": rng.choice(FN_FL)}
    n = N_SPECS[tier] // nshards
    names = gen.ITER_TOOL_NAMES + gen.AGG_NAMES + ["tee"]
    for i in range(n):
        name = names[i % len(names)]
        if name == "tee":
            nchild = rng.choice([1, 2, 3])
            ks = gen.keys_seq(rng, 4)
            spec = {"tool": "tee", "srcs": [ks], "fns": [], "params": {"n": nchild},
                    "ops": [rng.randrange(nchild) for _ in range(rng.randint(1, 2 * len(ks) + 3))]}
        elif name in gen.AGG_NAMES:
            spec = gen.agg_spec(rng, name, maxlen=4)
            if spec.get("raw"):
                # keep the fault the only source of exceptions: Items only
                spec = {"tool": name, "srcs": [gen.keys_seq(rng, 4)], "fns": spec.get("fns") and [rng.choice(gen.KEYS)] or [],
                        "params": {k: v for k, v in spec["params"].items() if k in ("n", "reverse")}}
                if name == "dict":
                    spec["srcs"] = [[[rng.randrange(3), rng.randrange(5)] for _ in range(rng.randint(0, 4))]]
                if name == "reduce":
                    spec["fns"] = [rng.choice(gen.BINARY)]
                if name == "sum":
                    spec["params"]["start"] = ["item", 0, "start"]
                if name in ("nlargest", "nsmallest"):
                    spec["params"]["n"] = rng.randint(0, 5)
        else:
            spec = gen.iter_spec(rng, name, maxlen=4)
        gen_kind = rng.random() < 0.3
        pool = ["async_gen", "sync_gen"] if gen_kind else [f for f in SRC_FL if not f.endswith("gen")]
        yield {"spec": spec, "flav": [rng.choice(pool) for _ in spec["srcs"]] or [pool[0]],
               "fnfl": rng.choice(FN_FL), "exc": rng.choice(EXC), "phase": rng.choice(["call", "await"])}


def run_groupby(case, stats):
    from . import C16
    gb = case["gb"]
    base = C16.gb_side(gb, True)
    probes = [("src", base["src"].uses)]
    if base["fn"] is not None:
        probes.append(("fn", base["fn"].uses))
    exc_type = FAULT_TYPES[case["exc"]]
    viols, sigs, evals = [], [], 0
    fnfl = case.get("fnfl", "def") if (gb["key"] or "").startswith("a") else "def"
    for kind, uses in probes:
        for k in range(1, uses + 1):
            evals += 1
            ref = C16.gb_side(gb, True, Fault(kind, 0, k, exc_type("injected"), case["phase"]))
            got = C16.gb_side(gb, False, Fault(kind, 0, k, exc_type("injected"), case["phase"]), fnfl=fnfl)
            stats["injections"] += 1
            stats["inj_groupby"] += 1
            probe = got["src"] if kind == "src" else got["fn"]
            if ref["results"] and ref["results"][-1][0] == "raise" and ref["results"][-1][2]:
                stats["stdlib_raised_injected"] += 1
                sigs.append(("groupby", str(gb), kind, k, case["exc"]))
            if not probe.faulted:
                stats["fault_not_reached_by_asyncstdlib"] += 1
                continue
            problem = None
            if ref["results"] != got["results"]:
                problem = "results"
            elif probe.use_after_fault:
                problem = "used-after-fault"
            if problem:
                viols.append({"key": f"groupby/{problem}",
                              "msg": f"groupby keys={gb['keys']} key={gb['key']} flav={gb['flav']} ops={gb['ops']}: fault "
                                     f"{case['exc']} at use {k} of {kind}: itertools {ref['results']} vs asyncstdlib "
                                     f"{got['results']}; uses after fault={probe.use_after_fault}"[:1000]})
    stats["specs_groupby"] += 1
    return {"violations": viols, "evals": max(1, evals), "sigs": sigs}


def run_builtin_callable(case, stats):
    """The callable is a BUILTIN (C implemented: ``abs``, ``operator.getitem``, a bound ``deque.popleft``) that hands
    back awaitables - neither ``def`` nor ``async def``, and not a class.  The awaitable of its k-th call fails: the
    outcome is the one of an equivalent ``lambda`` wrapping the very same builtin."""
    import collections
    import operator
    from ..probes import FAULT_TYPES
    tool, n, k = case["tool"], case["n"], case["k"]

    def scenario(wrap):
        CTX.reset()
        boom = FAULT_TYPES[case["exc"]]("the awaitable of a builtin's result failed")
        log = []

        async def work(i):
            log.append(("start", i))
            if case["susp"]:
                await Suspend(("work", i), 1)
            if i + 1 == k:
                raise boom
            log.append(("done", i))
            return [1, 0, 2, 1][i % 4] if tool != "reduce_getitem" else Holder(i + 1)

        class Holder:
            def __init__(self, i):
                self.i = i

            def __abs__(self):
                return work(self.i)

            def __getitem__(self, other):
                return work(self.i)

        xs = [Holder(i) for i in range(n)]
        f_abs = abs if not wrap else (lambda x: abs(x))
        f_get = operator.getitem if not wrap else (lambda a, b: operator.getitem(a, b))

        async def main():
            if tool == "map":
                return [x async for x in A.map(f_abs, xs)]
            if tool == "any_map":
                return await A.any(A.map(f_abs, xs))
            if tool == "filter":
                return [x.i async for x in A.filter(f_abs, xs)]
            if tool == "filterfalse":
                return [x.i async for x in A.filterfalse(f_abs, xs)]
            if tool == "takewhile":
                return [x.i async for x in A.takewhile(f_abs, xs)]
            if tool == "dropwhile":
                return [x.i async for x in A.dropwhile(f_abs, xs)]
            if tool == "max_key":
                return (await A.max(xs, key=f_abs)).i
            if tool == "min_key":
                return (await A.min(xs, key=f_abs)).i
            if tool == "sorted_key":
                return [x.i for x in await A.sorted(xs, key=f_abs)]
            if tool == "nlargest_key":
                return [x.i for x in await A.nlargest(xs, 2, key=f_abs)]
            if tool == "groupby_key":
                return [(key, [x.i async for x in grp]) async for key, grp in A.groupby(xs, key=f_abs)]
            if tool == "starmap":
                return [x async for x in A.starmap(f_abs, [(x,) for x in xs])]
            if tool == "reduce_getitem":
                return (await A.reduce(f_get, xs, Holder(0))).i
            if tool == "iter_popleft":
                queue = collections.deque(work(i) for i in range(n))
                queue.append(_done())
                pop = queue.popleft if not wrap else (lambda: queue.popleft())
                try:
                    return [x async for x in A.iter(pop, "done")]
                finally:
                    for c in queue:
                        c.close()
            raise ValueError(tool)

        async def _done():
            return "done"

        try:
            out = ("ok", drive(main()))
        except BaseException as exc:  # noqa: BLE001
            out = ("raise", type(exc).__name__, exc is boom)
        return out, log, list(CTX.foreign)

    base = scenario(True)
    got = scenario(False)
    viols = []
    stats["builtin_callable_runs"] += 1
    if base[0][0] == "raise" and not base[0][2] and k <= n:
        stats["builtin_callable_baseline_did_not_surface_the_fault"] += 1
    if got != base:
        key = "exception-swallowed" if base[0][0] == "raise" and got[0][0] == "ok" else "builtin-callable-differs"
        viols.append({"key": f"{tool}/{key}",
                      "msg": f"{tool} with a builtin callable returning awaitables, n={n}, the {k}-th awaitable fails with "
                             f"{case['exc']}: {got[0]} / {got[1]} vs the same builtin behind a lambda {base[0]} / {base[1]}"[:900]})
    return {"violations": viols, "evals": 1, "sigs": [("builtin", tool, n, k, case["exc"])]}


def run_case(case, stats: Counter):
    if case.get("kind") == "builtin_callable":
        return run_builtin_callable(case, stats)
    if case.get("kind") == "groupby":
        return run_groupby(case, stats)
    spec = case["spec"]
    tool = spec["tool"]
    flav = list(case["flav"])[:len(spec["srcs"])] or ["async_class"]
    if case["exc"] == "IndexError":
        # for a __getitem__ sequence IndexError IS the end-of-sequence signal, not a failure
        flav = [f if f != "getitem_seq" else "sync_iter" for f in flav]
    fnfl = case.get("fnfl", "def")
    gen_twin = flav[0].endswith("gen")
    steps = spec.get("steps")
    ops = spec.get("ops")
    base = run_sync_side(spec, steps=steps, log=False, gen_twin=gen_twin, ops=ops)
    probes = []
    if tool != "iter_sentinel":
        for s, st in enumerate(base.srcs):
            if st.sid == "outer":
                probes.append(("outer", 0, st.uses))
            else:
                # faults are placed up to and including the first end-of-source check; later uses are re-polls of
                # an exhausted source whose number and timing legitimately differ (see C05)
                probes.append(("src", s, min(st.uses, len(st.items) + 1)))
    for i, fs in enumerate(base.fns):
        if fs is not None:
            probes.append(("fn", i, fs.uses))
    nfn = len(spec.get("fns", []))
    outer = "sync_gen" if gen_twin else ("async_class" if flav[0].startswith("async") else "sync_iter")
    viols = []
    sigs = []
    evals = 0
    exc_type = FAULT_TYPES[case["exc"]]
    agg = TOOLS[tool].kind == "agg"
    for kind, index, uses in probes:
        for k in range(1, uses + 1):
            evals += 1
            exc_s = exc_type("injected")
            stop_pair = agg and kind == "fn" and (k + len(spec["srcs"][0])) % 4 == 0
            if stop_pair:
                # aggregations are coroutines, not generators: an end-of-iteration exception raised by a user
                # CALLABLE is an ordinary error there (the twin gets StopIteration, asyncstdlib StopAsyncIteration)
                exc_s = StopIteration("injected")
                stats["stop_iteration_from_callable"] += 1
            sync = run_sync_side(spec, fault=Fault(kind, index, k, exc_s, case["phase"]), steps=steps, log=False,
                                 gen_twin=gen_twin, ops=ops)
            exc_a = StopAsyncIteration("injected") if stop_pair else exc_type("injected")
            asy = run_async_side(spec, flavours=flav, fn_flavours=[fnfl] * nfn, steps=steps, log=False,
                                 fault=Fault(kind, index, k, exc_a, case["phase"]), outer_flavour=outer, ops=ops)
            if tool == "tee":
                # judged up to and including the first failure seen by a consumer (what happens when a tee is
                # used further after its source failed is not part of the property)
                # ... for the child that received the failure: a child of the library's tee has ended with it, an
                # itertools.tee child can be advanced further.  Its SIBLINGS are none the wiser: they get what the source
                # goes on to provide, exactly like the counterpart's - their events are compared to the end)
                # (only for class-based asynchronous sources: every other kind reaches the tee through a generator -
                # the source itself or the library's sync-to-async adapter - which its own failure finishes)
                siblings_too = flav[0].startswith("async_class")
                for side in (sync, asy):
                    if not siblings_too:
                        cut = next((n for n, (_, ev) in enumerate(side.out) if isinstance(ev, tuple) and ev and ev[0] == "raise"), None)
                        if cut is not None:
                            side.term = side.out[cut][1]
                            side.out = side.out[:cut]
                        continue
                    stats["tee_sibling_events_compared_after_a_failure"] += 1
                    failed, kept, first = set(), [], None
                    for c, ev in side.out:
                        if c in failed:
                            continue
                        if isinstance(ev, tuple) and ev and ev[0] == "raise":
                            failed.add(c)
                            if first is None:
                                first = ev
                            kept.append((c, ("failed",)))
                            continue
                        kept.append((c, ev))
                    if first is not None:
                        side.term = first
                    side.out = kept
            stats["injections"] += 1
            stats[f"inj_{kind}"] += 1
            raised = len(sync.term) == 3 and sync.term[0] == "raise" and sync.term[2]
            if raised:
                stats["stdlib_raised_injected"] += 1
                sigs.append((spec, flav, fnfl, kind, index, k, case["exc"]))
            else:
                stats["stdlib_absorbed_or_unreached"] += 1
            if asy.foreign:
                viols.append({"key": f"{tool}/foreign-suspension", "msg": asy.foreign[0]})
            probe = (asy.srcs[index] if kind == "src" else asy.srcs[-1] if kind == "outer" else asy.fns[index])
            if not probe.faulted:
                # asyncstdlib never performed that use (e.g. it does not re-poll an exhausted source
                # where the stdlib does): the premise "raises at its k-th use" is not met -> C05's matter
                stats["fault_not_reached_by_asyncstdlib"] += 1
                item_pull = kind == "src" and k <= len(base.srcs[index].items)
                if (kind == "fn" or item_pull) and raised and (list(sync.out) != list(asy.out) or tuple(sync.term) != tuple(asy.term)):
                    # a user CALLABLE is invoked exactly when the counterpart invokes it, and an ITEM is pulled from a
                    # source exactly when the counterpart pulls it (C05; only re-polls of an exhausted source may
                    # differ), so that k-th use is due: the library skipped it and with it the exception the
                    # counterpart surfaces there
                    stats["callable_fault_skipped"] += 1
                    key = classify(spec, kind, "callable-not-invoked", sync, asy, case)
                    viols.append({"key": key,
                                  "msg": f"{tool} {spec['params']} srcs={spec['srcs']} flav={flav} fn={fnfl}: fault "
                                         f"{case['exc']} at use {k} of {kind}{index}: stdlib makes that call/pull, gives "
                                         f"{len(sync.out)} items then {sync.term}; asyncstdlib never makes the call and "
                                         f"gives {len(asy.out)} items then {asy.term}"})
                continue
            problem = None
            if list(sync.out) != list(asy.out):
                problem = "items"
            elif stop_pair and len(sync.term) == 3 and len(asy.term) == 3 and sync.term[0] == asy.term[0] == "raise" \
                    and sync.term[2] and asy.term[2]:
                pass  # both raised their injected object (the type names differ by construction)
            elif tuple(sync.term) != tuple(asy.term):
                problem = "termination"
            elif probe.use_after_fault and tool != "tee":
                problem = "reuse"
            if problem:
                key = classify(spec, kind, problem, sync, asy, case)
                viols.append({"key": key,
                              "msg": f"{tool} {spec['params']} srcs={spec['srcs']} flav={flav} fn={fnfl}: fault "
                                     f"{case['exc']} at use {k} of {kind}{index} ({case['phase']}): stdlib gives "
                                     f"{len(sync.out)} items then {sync.term}; asyncstdlib gives {len(asy.out)} items "
                                     f"then {asy.term}; uses after fault={probe.use_after_fault}",
                              "detail": {"fault": [kind, index, k], "expected": [sync.out, sync.term],
                                         "got": [asy.out, asy.term]}})
    stats[f"specs_{tool}"] += 1
    return {"violations": viols, "evals": max(evals, 1), "sigs": sigs, "nontrivial": False}


def classify(spec, kind, problem, sync, asy, case):
    tool = spec["tool"]
    if tool == "accumulate" and spec["params"].get("initial") == ["none"] and list(asy.out[:1]) == [("v", "NoneType", None)] \
            and list(sync.out[:1]) != [("v", "NoneType", None)]:
        # exactly the recorded mechanism: None is treated as a value and delivered first
        return "accumulate/initial-none"
    if tool == "merge" and spec["params"].get("reverse") and problem != "reuse":
        return "merge/reverse-tie-order"
    if tool == "sorted" and case["exc"] == "TypeError" and not (spec.get("fns") and spec["fns"][0]):
        return "sorted/fastpath-swallows-TypeError"
    if problem == "reuse":
        return f"{tool}/used-after-fault"
    if len(asy.term) == 3 and asy.term[0] == "raise" and not asy.term[2] and len(sync.term) == 3 and sync.term[2]:
        return f"{tool}/exception-replaced"
    if asy.term[0] in ("stop", "ret") and len(sync.term) == 3 and sync.term[2]:
        return f"{tool}/exception-swallowed"
    return f"{tool}/{problem}"


def finish(stats, tier):
    for need in ("stdlib_raised_injected", "inj_src", "inj_fn", "inj_outer"):
        if not stats.get(need):
            return f"deciding counter {need} is zero"
    return None
