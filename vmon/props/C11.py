"""C11 — lru_cache stays correct under overlapping calls and cancellation."""
from __future__ import annotations

import itertools
import random
from collections import Counter, OrderedDict

import asyncstdlib as A

from ..loop import CTX, Driver, Suspend, rr_strategy
from ..sched import explore
from ..probes import PLANNED, PLANNED_NAMES, Planned, PlannedAbort, PLANNED_ANY
from ..tools import Opaque

# (what user code fails with: also a BaseException that is no Exception - a failure like any other)
PLANNED = dict(PLANNED, Abort=PlannedAbort)
PLANNED_NAMES = list(PLANNED_NAMES) + ["Abort", "Abort"]

OPAQUE = Opaque("result")  # a result that refuses to be inspected (no truth value, equality, hash)

ID = "C11"
LEVEL = "exploration"
ANCHORS = ["_lrucache.py"]
RULE = ("2..4 tasks issue 1..3 operations each (call key, cache_clear, cache_discard key) against one lru_cache around "
        "a coroutine function that suspends 1..2 times and fails on planned invocations, maxsize None/1/2; ALL "
        "interleavings by stateless DFS for the small configurations (2 tasks x 2 ops x 2 keys x 1 suspension), "
        "seeded random/PCT schedules beyond; one task cancelled at each of its suspension points. After EVERY step: "
        "cache_info() equals an exact shadow (misses = invocations since the last clear, hits = calls started minus "
        "invocations), currsize <= maxsize. At the end: every caller got a value some run produced for its key, the "
        "Cancel object propagated, failed/cancelled runs left no entry: a random sequential epilogue must be "
        "reproduced by SOME valid LRU state (ordered subset of successfully completed keys of the reported size, "
        "each with one of its produced values) replayed on an OrderedDict model (existential check). "
        "one evaluation = one executed schedule; distinct = (scenario, schedule trace)")
RULE += (' Also: planned failures of every standard exception type; None/0/() results for one key; a cancellation thrown into a worker must come out of the cached call (overlapping identical calls).')
RULE += (' Also: opaque results.')
RULE += (' Also: call objects created first and started later (a scheduling point between creation and start).')
RULE += (' Also: cache_discard operations in the quiescent epilogue.')
RULE += (' Also: calls spelled with a keyword (f(2) and f(2, tag=1) are different keys); functions failing with a BaseException that is no Exception.')
RULE += (' Also: argument patterns with equal hashes (negative integers) are different keys; a call that started after the last clear and finished is stored.')
RULE += (" Also: a one-argument call f(hash((a, b))) next to the two-argument call f(a, b): equal hashes, different keys.")
ASSUMPTIONS = ["cache contents during concurrency are not pinned, only constrained existentially at quiescence",
               "the OrderedDict LRU model is the one cross-validated against functools.lru_cache by C10"]
EXHAUSTIVE_SUBSPACES = 'every scenario counted in scenarios_explored_exhaustively had ALL its interleavings executed'
EXHAUSTIVE = {"quick": False, "thorough": False}
N_SCEN = {"quick": 1200, "thorough": 40000}
DFS_LIMIT = {"quick": 1200, "thorough": 30000}
RANDOM_RUNS = {"quick": 50, "thorough": 300}


# pairs (a, b) of small integers whose tuple hash is itself the hash of an integer: f(a, b) and f(hash((a, b))) are unequal
# argument patterns with equal hashes (about a quarter of all pairs are; b > 1 keeps them apart from the other spellings)
HASH_PAIRS = [(a, b) for a in range(40) for b in range(2, 6) if hash(hash((a, b))) == hash((a, b))][:8]


def cases(tier, seed, shard, nshards):
    rng = random.Random(f"C11-{seed}-{shard}")
    n = max(1, N_SCEN[tier] // nshards)
    for i in range(n):
        mode = ["dfs", "random", "pct", "dfs"][i % 4]
        if mode == "dfs":
            nt, nops, nkeys, susp = 2, 2, 2, 1
            if rng.random() < 0.3:
                nt, nops = 3, 1
        else:
            nt, nops, nkeys, susp = rng.choice([2, 3, 4]), rng.randint(1, 3), rng.randint(1, 3), rng.choice([1, 2])
        tasks = []
        for _ in range(nt):
            ops = []
            for _ in range(nops):
                r = rng.random()
                ops.append(["call", rng.randrange(nkeys)] if r < 0.78 else ["clear"] if r < 0.88
                           else ["discard", rng.randrange(nkeys)])
            tasks.append(ops)
        yield {"mode": mode, "maxsize": rng.choice([None, 1, 1, 2, 2]), "tasks": tasks, "susp": susp,
               "fail": sorted(rng.sample(range(1, 7), rng.choice([0, 0, 1, 2]))),
               "cancel_task": rng.randrange(nt) if rng.random() < 0.4 else None,
               "runs": DFS_LIMIT[tier] if mode == "dfs" else RANDOM_RUNS[tier], "seed": rng.randrange(1 << 30),
               "exc": rng.choice(PLANNED_NAMES), "falsy_value": rng.choice([None, None, "none", "none", "zero", "empty", "opaque"]),
               # calls spelled with a keyword: key 2j+1 is the call f(2j, tag=1) - same positional argument as key 2j
               "kwform": rng.random() < 0.3,
               # calls whose keys have EQUAL HASHES without being equal: key 2j+1 is the two-argument call f(a, b) and key 2j
               # the one-argument call f(hash((a, b))) (used when the keyword form is not)
               "hashform": rng.random() < 0.25,
               "epilogue": [(["discard", rng.randrange(nkeys + 1)] if rng.random() < 0.2 else rng.randrange(nkeys + 1))
                            for _ in range(rng.randint(3, 7))],
               "precreate": rng.random() < 0.3}


def _same_value(a, b):
    """Equality of results, without asking an opaque one (identity is all there is to say about it)."""
    if a is b:
        return True
    if isinstance(a, Opaque) or isinstance(b, Opaque):
        return False
    return a == b


def _planned(case):
    return PLANNED[case.get("exc", "Exception")]


def execute(case, choose, cancel_at=None):
    CTX.reset()
    state = {"runs": 0, "started": 0, "inv_since_clear": 0, "started_since_clear": 0, "active": Counter(),
             "overlap_same_key": 0, "clears_in_flight": 0, "shrink_ok": False, "last_size": 0}
    produced = {}  # run id -> (key, outcome)
    success = {}  # key -> list of values
    viols = []
    fail = set(case["fail"])

    def mkval(key, rid):
        # for key 0 the function may return None (or another falsy constant): a result like any other
        if key == 0 and case.get("falsy_value") is not None:
            return {"none": None, "zero": 0, "empty": (), "opaque": OPAQUE}[case["falsy_value"]]
        return ("v", key, rid)

    kwform = bool(case.get("kwform"))
    hashform = bool(case.get("hashform")) and not kwform
    hash_rev = {}
    for j, pair in enumerate(HASH_PAIRS):
        hash_rev[pair] = 2 * j + 1
        hash_rev[(hash(pair), 0)] = 2 * j

    def pattern(key):
        """How the logical key is spelled as a call: positionally - or, for odd keys in the keyword form, as the
        positional argument of its even neighbour plus one keyword (``f(2)`` and ``f(2, tag=1)`` are different calls)."""
        if kwform and isinstance(key, int):
            # (the positional argument is NEGATIVE: hash(-1) == hash(-2), so the calls for keys 1 and 3 - f(-1, tag=1) and
            # f(-2, tag=1) - are unequal argument patterns with equal hashes)
            return ((-(key // 2) - 1,), {"tag": 1} if key % 2 else {})
        if hashform and isinstance(key, int) and 0 <= key < 2 * len(HASH_PAIRS):
            pair = HASH_PAIRS[key // 2]
            return (pair if key % 2 else (hash(pair),), {})
        return ((key,), {})

    def call_of(key):
        args, kw = pattern(key)
        return cached(*args, **kw)

    def discard(key):
        args, kw = pattern(key)
        return cached.cache_discard(*args, **kw)

    clock = itertools.count(1)
    finished = []  # (key, logical time its run started, logical time it finished successfully)
    marks = {"clear": 0, "discard": {}}

    async def wrapped(key, tag=0):
        key = (-key - 1) * 2 + tag if kwform and isinstance(key, int) else key
        if hashform and (key, tag) in hash_rev:
            key = hash_rev[(key, tag)]
        t_start = next(clock)
        state["runs"] += 1
        rid = state["runs"]
        state["inv_since_clear"] += 1
        state["active"][key] += 1
        if state["active"][key] > 1:
            state["overlap_same_key"] += 1
        try:
            await Suspend(("f", key), case["susp"])
            if rid in fail:
                produced[rid] = (key, "failed")
                raise _planned(case)(rid)
        finally:
            state["active"][key] -= 1
        value = mkval(key, rid)
        produced[rid] = (key, "ok")
        success.setdefault(key, []).append(value)
        finished.append((key, t_start, next(clock)))
        return value

    if case["maxsize"] is None:
        cached = A.lru_cache(maxsize=None)(wrapped)
    else:
        cached = A.lru_cache(maxsize=case["maxsize"])(wrapped)
    received = []

    async def worker(t, ops):
        for op in ops:
            if op[0] == "call":
                call = None
                if case.get("precreate"):
                    # the call OBJECT is created first and started later (ensure_future / gather create their coroutine
                    # objects before any of them runs): whether it hits or misses is decided when it runs - whatever
                    # was cleared, discarded, evicted or stored in between
                    call = call_of(op[1])
                    try:
                        await Suspend(("created", t), 1)
                    except BaseException:
                        call.close()
                        raise
                state["started"] += 1
                state["started_since_clear"] += 1
                try:
                    value = await (call if call is not None else call_of(op[1]))
                except PLANNED_ANY:
                    continue
                received.append((t, op[1], value))
            elif op[0] == "clear":
                if sum(state["active"].values()):
                    state["clears_in_flight"] += 1
                cached.cache_clear()
                marks["clear"] = next(clock)
                state["inv_since_clear"] = 0
                state["started_since_clear"] = 0
                state["shrink_ok"] = True
            else:
                discard(op[1])
                marks["discard"][op[1]] = next(clock)
                state["shrink_ok"] = True

    def monitor(driver, task):
        info = cached.cache_info()
        want_m = state["inv_since_clear"]
        want_h = state["started_since_clear"] - state["inv_since_clear"]
        if (info.hits, info.misses) != (want_h, want_m):
            viols.append(("lru_cache/statistics-drift",
                          f"after step {driver.steps}: cache_info {tuple(info)} but shadow hits={want_h} misses={want_m}"))
        if case["maxsize"] is not None and info.currsize > case["maxsize"]:
            viols.append(("lru_cache/currsize-exceeds-maxsize", f"after step {driver.steps}: {tuple(info)}"))
        # stored entries only go away through cache_clear / cache_discard (an insertion into a full cache
        # replaces one entry by another); a failed or cancelled call in particular removes nothing
        if info.currsize < state["last_size"] and not state["shrink_ok"]:
            viols.append(("lru_cache/entry-lost-without-clear-or-discard",
                          f"step {driver.steps} of {task.name}: currsize went {state['last_size']} -> {info.currsize} "
                          f"although no cache_clear/cache_discard ran in that step"))
        state["last_size"] = info.currsize
        state["shrink_ok"] = False

    driver = Driver(choose, after_step=monitor)
    tasks = [driver.spawn(f"t{t}", worker(t, ops), cancel_at=cancel_at if t == case.get("cancel_task") else None)
             for t, ops in enumerate(case["tasks"])]
    driver.run()
    info = {"trace": tuple(driver.trace), "choice_points": driver.choice_points, "suspensions": [t.resumes for t in tasks],
            "overlap": state["overlap_same_key"], "clears_in_flight": state["clears_in_flight"]}
    if driver.deadlock:
        viols.append(("lru_cache/deadlock", "tasks blocked forever"))
    for t in tasks:
        if t.exc is not None:
            if t.cancel_exc is not None and t.exc is t.cancel_exc:
                info["cancelled"] = True
            else:
                viols.append(("lru_cache/task-raised", f"{t.name} ended with {type(t.exc).__name__}: {t.exc}"))
        if t.cancel_exc is not None and t.exc is not t.cancel_exc:
            # every suspension of a worker is inside the wrapped function, below the cache: a cancellation thrown
            # there has to come out of the cached call and end the worker
            info["cancel_thrown_not_propagated"] = True
            viols.append(("lru_cache/cancel-not-propagated",
                          f"{t.name} was cancelled at resumption {t.cancel_at} (inside {t.cancelled_at_owner}) but ended "
                          f"with {'value ' + repr(t.value) if t.exc is None else repr(t.exc)}"))
    for t, key, value in received:
        if key == 0 and case.get("falsy_value") is not None:
            want = mkval(0, 0)
            ok = (value is want or (not isinstance(want, Opaque) and not isinstance(value, Opaque) and value == want
                                    and type(value) is type(want))) and (0, "ok") in produced.values()
        else:
            ok = isinstance(value, tuple) and len(value) == 3 and value[1] == key and produced.get(value[2]) == (key, "ok")
        if not ok:
            viols.append(("lru_cache/foreign-value", f"task {t} asked for key {key} and received {value!r}"))
    # ---- quiescence: existential epilogue ---------------------------------------------------
    if not driver.deadlock:
        fail.clear()
        q = cached.cache_info()
        # a run that STARTED after the last cache_clear() and finished successfully after the last discard of its key has
        # nothing to do with either: its result is stored (unless the bound evicted it) - whatever older calls were
        # still suspended at the time
        due = {key for key, t0, t1 in finished if t0 > marks["clear"] and t1 > marks["discard"].get(key, 0)}
        need = len(due) if case["maxsize"] is None else min(len(due), case["maxsize"])
        # (in a BOUNDED cache an eviction followed by a discard of the evicting key may empty it again: there the rule is
        # applied to histories without discards only)
        if q.currsize < need and (case["maxsize"] is None or not marks["discard"]):
            viols.append(("lru_cache/finished-call-after-the-clear-not-stored",
                          f"at quiescence currsize={q.currsize}, but {sorted(due, key=str)} were computed by runs that started "
                          f"after the last clear and finished after the last discard of their key (maxsize={case['maxsize']})"))
        observed = []

        async def epilogue():
            for key in case["epilogue"]:
                if isinstance(key, list):
                    # ["discard", k]: an entry discarded at quiescence is gone - whatever happened before
                    discard(key[1])
                    observed.append((None, tuple(cached.cache_info())))
                    continue
                v = await call_of(key)
                observed.append((v, tuple(cached.cache_info())))

        base_runs = state["runs"]
        d2 = Driver(rr_strategy())
        d2.spawn("epilogue", epilogue())
        d2.run()
        maxsize = case["maxsize"]
        keys = sorted(success)
        matched = False
        ncand = 0
        for subset in itertools.permutations(keys, q.currsize) if q.currsize <= len(keys) else ():
            for values in itertools.product(*[success[k] for k in subset]):
                ncand += 1
                model = OrderedDict(zip(subset, values))
                hits, misses, runs = q.hits, q.misses, base_runs
                ok = True
                for key, (v, inf) in zip(case["epilogue"], observed):
                    if isinstance(key, list):
                        model.pop(key[1], None)
                        if inf != (hits, misses, maxsize, len(model)):
                            ok = False
                            break
                        continue
                    if key in model:
                        hits += 1
                        model.move_to_end(key)
                        val = model[key]
                    else:
                        misses += 1
                        runs += 1
                        val = mkval(key, runs)
                        if maxsize is not None and len(model) >= maxsize:
                            model.popitem(last=False)
                        model[key] = val
                    if not _same_value(val, v) or inf != (hits, misses, maxsize, len(model)):
                        ok = False
                        break
                if ok:
                    matched = True
                    break
            if matched:
                break
        info["candidates"] = ncand
        if not matched:
            viols.append(("lru_cache/no-valid-lru-state-explains-epilogue",
                          f"at quiescence cache_info={tuple(q)}, successful runs per key={success}; epilogue "
                          f"{case['epilogue']} observed {observed}; no ordered subset of the completed keys explains it"))
    if CTX.foreign:
        viols.append(("lru_cache/foreign-suspension", CTX.foreign[0]))
    return viols, info


def run_case(case, stats: Counter):
    viols_out = {}
    traces = set()
    evals = 0
    cancel_points = [None]
    if case.get("cancel_task") is not None:
        _, info = execute(case, rr_strategy())
        cancel_points = list(range(1, info["suspensions"][case["cancel_task"]] + 1)) or [None]
    for cancel_at in cancel_points:
        runs = case["runs"] if cancel_at is None else max(20, case["runs"] // len(cancel_points))

        def exe(choose, cancel_at=cancel_at):
            return execute(case, choose, cancel_at)

        for res, mode, exh in explore(exe, case["mode"], case["seed"], runs, len(case["tasks"])):
            if res is None:
                stats["scenarios_explored_exhaustively" if exh else "dfs_budget_hit"] += 1
                continue
            viols, info = res
            evals += 1
            traces.add((cancel_at, info["trace"]))
            stats["executions"] += 1
            stats["choice_points"] += info["choice_points"]
            stats["overlapping_misses_same_key"] += info["overlap"]
            stats["clears_during_flight"] += info["clears_in_flight"]
            stats["epilogue_candidates_tried"] += info.get("candidates", 0)
            if info.get("cancelled"):
                stats["cancelled_runs"] += 1
            for key, msg in viols:
                if key not in viols_out:
                    viols_out[key] = {"key": key, "msg": f"lru scenario {dict(case, runs=None)} cancel_at={cancel_at} "
                                                         f"trace={list(info['trace'])}: {msg}"[:1400],
                                      "detail": {"trace": list(info["trace"]), "cancel_at": cancel_at}}
    stats["distinct_schedules"] += len(traces)
    return {"violations": list(viols_out.values()), "evals": max(1, evals), "distinct": len(traces),
            "sample": dict(case, example_schedule=[list(map(str, t)) for t in list(traces)[:1]])}


def finish(stats, tier):
    for need in ("executions", "choice_points", "overlapping_misses_same_key", "clears_during_flight", "cancelled_runs",
                 "scenarios_explored_exhaustively"):
        if not stats.get(need):
            return f"deciding counter {need} is zero"
    return None
