"""C05 — laziness: sources pulled and callables invoked in the stdlib's order."""
from __future__ import annotations

import random
from collections import Counter

from .. import gen
from ..tools import run_sync_side, run_async_side, first_diff, strip_close, drop_stdlib_repolls
from ..loop import CTX, drive
from ..probes import Item, canon

ID = "C05"
LEVEL = "exploration"
ANCHORS = ["builtins.py", "itertools.py", "heapq.py"]
RULE = ("the interleaved event log (consumer step, pull(src,pos), end(src), call(fn,args), yield(item), termination) "
        "of each async tool driven step by step is compared for equality with the log of the stdlib twin on sync "
        "twins of the same probes; enumerated islice/batched/length-vector spaces plus seeded random specs over all "
        "tool variants, tee consumption patterns, groupby operation sequences (partial / out-of-order consumption of "
        "groups, lock-step with itertools.groupby) and the short-circuiting aggregations all/any; instrumented source "
        "flavours sync_iter/sync_gen/getitem_seq/async_gen/async_class, callables def/async def; non-trivial = at "
        "least one pull and (a source ended, or an early exit, or a callable was invoked); distinct = spec+flavours")
RULE += (' Also: ONE iterator passed as several arguments; sized containers (list, tuple) among one-shot iterators; groupby with a key that fails once while the consumer carries on; a plain list changed (append/pop/replace/insert/clear) while the tool is part-way through it; group handles closed.')
RULE += (' Also: key / reduction calls of min, max, reduce (full interleaving with pulls) and sorted, nlargest, nsmallest (call sequence).')
RULE += (' Also: cycle over a list that is changed after the first pass.')
RULE += (" Also: after a tool was closed early the caller's synchronous one-shot iterators still yield everything that was not taken.")
RULE += (' Also: chain / chain.from_iterable ask a re-iterable argument for its iterator no earlier than the counterpart (once the previous argument is used up).')
RULE += (' Also: inputs in which every occurrence of a key is the very same object.')
RULE += (' Also: zip(strict=<true object that is not True>) is strict.')
RULE += (' Also: sources that take their item when __anext__ is called (eager start) in every slot.')
ASSUMPTIONS = ["stdlib 3.12 is the reference; events compared are exactly pulls, end checks, calls, yields",
               "generator-flavoured sources are compared with generator twins (a pull after exhaustion is invisible there)",
               "accumulate([]) without initial: only the pull/end events before the documented TypeError are compared"]
EXHAUSTIVE_SUBSPACES = 'the enumerated spaces of C01 with instrumented class-based sources'
EXHAUSTIVE = {"quick": False, "thorough": False}

N_RANDOM = {"quick": 150000, "thorough": 6000000}
FLAVS = ["async_class", "async_class", "async_gen", "sync_iter", "sync_gen", "getitem_seq", "async_class_bare", "async_iterable", "sync_iterable",
         # a source whose __anext__ takes its item when it is CALLED (a future-style channel): a request made and not yet
         # awaited has consumed already
         "async_class_eagerstart"]
FNFL = ["def", "async_def", "callobj"]


def cases(tier, seed, shard, nshards):
    from . import C16
    n16 = 0
    for gb in C16.cases(tier, seed, shard, nshards):
        # groupby under partial / out-of-order consumption: same lock-step executor as C16, judged on the event log
        n16 += 1
        if n16 % 4 == 0:
            if gb["flav"] == "list":
                gb = dict(gb, flav="async_class")
            yield {"kind": "groupby", "gb": gb}
    k = 0
    for name in MUT_TOOLS:
        if MUT_TOOLS[name][0] is None:
            continue
        for n in (0, 1, 3, 4):
            for at in range(0, n + 2 if name != "cycle" else n + 6):
                for mutation in MUTATIONS:
                    k += 1
                    if k % nshards == shard:
                        yield {"kind": "mutating", "tool": name, "n": n, "at": at, "mutation": mutation}
    idx = 0
    for spec in gen.enum_iter_specs(small=(tier == "quick")):
        idx += 1
        if idx % nshards == shard:
            yield {"spec": spec, "flav": ["async_class"] * max(1, len(spec["srcs"])), "fnfl": "def"}
    rng = random.Random(f"C05-{seed}-{shard}")
    n = N_RANDOM[tier] // nshards
    names = gen.ITER_TOOL_NAMES + ["tee", "all", "any"] + AGG_WITH_CALLABLE
    for i in range(n):
        name = names[i % len(names)]
        if name == "tee":
            nchild = rng.choice([1, 2, 3, 4])
            ks = gen.keys_seq(rng, 5)
            ops = [rng.randrange(nchild) for _ in range(rng.randint(0, 3 * len(ks) + 4))]
            if rng.random() < 0.5:
                # some children are closed (dropped) midway - but only ones that were advanced before:
                # a child closed before its first advance is the recorded known finding of C04/C09
                for _ in range(rng.randint(1, 2)):
                    if ops:
                        at = rng.randrange(len(ops))
                        started = [c for c in set(o for o in ops[:at] if isinstance(o, int))]
                        if started:
                            ops.insert(at, ["close", rng.choice(started)])
            spec = {"tool": "tee", "srcs": [ks], "fns": [], "params": {"n": nchild}, "ops": ops}
        elif name in ("all", "any"):
            spec = {"tool": name, "srcs": [gen.keys_seq(rng, 8, 2)], "fns": [], "params": {}}
        elif name in AGG_WITH_CALLABLE:
            # aggregations that take a callable: the key / the reduction is invoked once per item, in item order,
            # also for the only item of a one-item input
            spec = gen.agg_spec(rng, name, rng.choice([1, 2, 4, 6]))
            while spec.get("raw"):
                spec = gen.agg_spec(rng, name, rng.choice([1, 2, 4, 6]))
        else:
            spec = gen.iter_spec(rng, name)
        if rng.random() < 0.2 and "steps" not in spec and name not in ("tee", "all", "any") + tuple(AGG_WITH_CALLABLE):
            spec["steps"] = rng.randint(0, 4)  # consumer stops early
        gen_kind = rng.random() < 0.25
        pool = ["async_gen", "sync_gen"] if gen_kind else [f for f in FLAVS if not f.endswith("gen")]
        flav = [rng.choice(pool) for _ in spec["srcs"]] or [pool[0]]
        if len(flav) >= 2 and not gen_kind and not spec.get("same") and rng.random() < 0.35:
            # a sized container (list / tuple) among one-shot iterators: its length must not change how the
            # iterators next to it are polled
            for i in rng.sample(range(1, len(flav)), rng.randint(1, len(flav) - 1)):
                flav[i] = rng.choice(["list", "tuple"])
        yield {"spec": spec, "flav": flav, "fnfl": rng.choice(FNFL)}


AGG_WITH_CALLABLE = ["min", "max", "reduce", "sorted", "nlargest", "nsmallest"]
# these materialise their input before (sorted) or while (heapq) computing keys, an implementation detail of the
# counterpart: for them the sequence of calls is compared, not its interleaving with the pulls
CALLS_ONLY = ("sorted", "nlargest", "nsmallest")


MUT_TOOLS = {
    # name -> (fns, params): tools that read ONE list lazily, one position per step
    "enumerate": ([], {}), "islice": ([], {"args": [1, None, 2]}), "batched": ([], {"n": 2}), "pairwise": ([], {}),
    "chain": ([], {}), "zip": ([], {}), "zip_longest": ([], {}), "accumulate": ([None], {"initial": ["item", 0, "init"]}), "filter": ([None], {}),
    "filterfalse": ([None], {}), "map": (["mk"], {}), "takewhile": (["true"], {}), "dropwhile": (["false"], {}),
    "starmap": (None, None), "compress": (None, None),
    # cycle reads its source ONCE, one position per step, and replays its own copies afterwards: changes made to the
    # list after the first pass (steps beyond n) must go unnoticed
    "cycle": ([], {}),
}
MUTATIONS = ["append", "append2", "pop", "replace_next", "insert_front", "clear"]


def run_mutating(case, stats):
    """A plain list is the source and is modified while the tool is part-way through it (by the consumer between
    two steps): like its counterpart the tool reads the list one position per step, so it sees the change."""
    from ..probes import make_fn, FnState
    from ..tools import TOOLS, IMPLS, _params
    name, at, mutation, n = case["tool"], case["at"], case["mutation"], case["n"]
    fns, params = MUT_TOOLS[name]
    spec = {"tool": name, "srcs": [list(range(n))], "fns": fns, "params": params}
    tool = TOOLS[name]
    outs = {}
    for which in ("sync", "async"):
        CTX.reset()
        data = [Item(k % 3, (0, k), truth=k % 3 != 0) for k in range(n)]
        fresh = iter([Item(7, ("new", j)) for j in range(4)])
        P = _params(spec)
        F = [make_fn(FnState(f"f{i}", IMPLS[f]), "def") if f is not None else None for i, f in enumerate(fns)]
        out = outs[which] = []

        def mutate():
            if mutation == "append":
                data.append(next(fresh))
            elif mutation == "append2":
                data.extend([next(fresh), next(fresh)])
            elif mutation == "pop" and data:
                data.pop()
            elif mutation == "replace_next" and len(data) > len(out):
                data[-1] = next(fresh)
            elif mutation == "insert_front":
                data.insert(0, next(fresh))
            elif mutation == "clear":
                data.clear()

        if which == "sync":
            it = tool.sync([data], F, P)
            try:
                for step in range(n + 6):
                    if step == at:
                        mutate()
                    out.append(canon(next(it)))
            except StopIteration:
                out.append("STOP")
            except Exception as exc:  # noqa: BLE001
                out.append(("raise", type(exc).__name__))
        else:
            async def main():
                it = tool.make([data], F, P)
                try:
                    for step in range(n + 6):
                        if step == at:
                            mutate()
                        out.append(canon(await it.__anext__()))
                except StopAsyncIteration:
                    out.append("STOP")
                except Exception as exc:  # noqa: BLE001
                    out.append(("raise", type(exc).__name__))
                await it.aclose()

            drive(main())
    stats["mutating_source_runs"] += 1
    viols = []
    if outs["sync"] != outs["async"]:
        d = next((i for i, (a, b) in enumerate(zip(outs["sync"], outs["async"])) if a != b), min(len(outs["sync"]), len(outs["async"])))
        viols.append({"key": f"{name}/list-changed-while-iterating",
                      "msg": f"{name} over a list of {n} items, list changed ({mutation}) before step {at}: stdlib gives "
                             f"{outs['sync'][d:d + 3]} from output {d}, asyncstdlib {outs['async'][d:d + 3]}"})
    if CTX.foreign:
        viols.append({"key": f"{name}/foreign-suspension", "msg": CTX.foreign[0]})
    return {"violations": viols, "nontrivial": True, "sig": ("mutating", name, at, mutation, n)}


def classify(spec, exp, got, d):
    tool = spec["tool"]
    ev = got[d] if d < len(got) else None
    if ev is not None and ev[0] == "end" and ("end", ev[1]) in got[:d]:
        return f"{tool}/pull-after-end"
    if tool == "merge" and spec["params"].get("reverse"):
        return "merge/reverse-tie-order"
    if tool == "iter_sentinel" and "identical_at" in spec["params"] and spec.get("raw"):
        return "iter_sentinel/identity-shortcut"
    if tool == "accumulate" and spec["params"].get("initial") == ["none"] and ev is not None and ev[0] == "yield" \
            and tuple(ev[1]) == ("v", "NoneType", None) and not any(e[0] == "pull" for e in got[:d]):
        # exactly the recorded mechanism: a None is yielded before the first pull
        return "accumulate/initial-none"
    if ev is not None and ev[0] in ("pull", "end") and (d >= len(exp) or exp[d][0] not in ("pull", "end")):
        return f"{tool}/reads-ahead"
    return f"{tool}/order"


def run_case(case, stats: Counter):
    if case.get("kind") == "mutating":
        return run_mutating(case, stats)
    if case.get("kind") == "groupby":
        from . import C16
        stats["runs_groupby"] += 1
        res = C16.run_case(case["gb"], stats)
        gb = case["gb"]
        if gb["key"] is not None and not res["violations"]:
            # a key that fails once, with a consumer that catches the error and carries on: itertools drops the item
            # whose key could not be computed; every later pull, key call and yield must stay in step
            from ..probes import Injected
            from ..tools import Fault
            base = C16.gb_side(gb, True)
            ncalls = base["fn"].uses if base["fn"] is not None else 0
            for k in sorted({1, max(1, ncalls // 2), ncalls}) if ncalls else ():
                ref = C16.gb_side(gb, True, Fault("fn", 0, k, Injected("key"), "call"), cont=True)
                fnfl = "async_def" if gb["key"].startswith("a") else "def"
                got = C16.gb_side(gb, False, Fault("fn", 0, k, Injected("key"), "await" if fnfl == "async_def" else "call"),
                                  fnfl=fnfl, cont=True)
                stats["groupby_failing_key_runs"] += 1
                head = f"groupby keys={gb['keys']} key={gb['key']} flav={gb['flav']} ops={gb['ops']} key fails at call {k}, consumer carries on"
                if ref["results"] != got["results"]:
                    d = next((i for i, (a, b) in enumerate(zip(ref["results"], got["results"])) if a != b),
                             min(len(ref["results"]), len(got["results"])))
                    res["violations"].append({"key": "groupby/after-failed-key",
                                              "msg": f"{head}: first difference at op {d}: itertools "
                                                     f"{ref['results'][d:d + 2]} vs asyncstdlib {got['results'][d:d + 2]}"[:900]})
                    break
                if gb["flav"] != "list":
                    lr, _ = drop_stdlib_repolls(ref["log"], got["log"])
                    if lr != got["log"]:
                        d = next((i for i, (a, b) in enumerate(zip(lr, got["log"])) if a != b), min(len(lr), len(got["log"])))
                        res["violations"].append({"key": "groupby/after-failed-key",
                                                  "msg": f"{head}: event logs differ at {d}: itertools {lr[max(0, d - 3):d + 2]} "
                                                         f"vs asyncstdlib {got['log'][max(0, d - 3):d + 2]}"[:900]})
                        break
        return res
    spec = case["spec"]
    tool = spec["tool"]
    flav = list(case["flav"])[:len(spec["srcs"])] or ["async_class"]
    steps = spec.get("steps")
    ops = spec.get("ops")
    gen_twin = flav[0].endswith("gen")
    sync = run_sync_side(spec, steps=steps, ops=ops, gen_twin=gen_twin)
    nfn = len(spec.get("fns", []))
    outer = "sync_gen" if gen_twin else ("async_class" if flav[0].startswith("async") else "sync_iter")
    asy = run_async_side(spec, flavours=flav, fn_flavours=[case.get("fnfl", "def")] * nfn, steps=steps, ops=ops,
                         outer_flavour=outer)
    exp = strip_close(sync.log)
    got = strip_close(asy.log)
    plain = {i for i, f in enumerate(flav) if f in ("list", "tuple")}
    if plain:
        # a plain list / tuple argument is not instrumented on the asyncstdlib side (it IS the user's list): its pulls
        # are taken out of the reference log; what remains - the one-shot iterators next to it - is compared as usual
        exp = [e for e in exp if not (e[0] in ("pull", "end") and e[1] in plain)]
        got = [e for e in got if not (e[0] in ("pull", "end") and e[1] in plain)]
    if tool == "accumulate" and not spec["srcs"][0] and "initial" not in spec["params"]:
        # documented deviation: TypeError instead of an empty iterator; events up to it must agree
        exp = [e for e in exp if e[0] in ("step", "pull", "end")]
        got = [e for e in got if e[0] in ("step", "pull", "end")]
    if tool in CALLS_ONLY:
        exp = [e for e in exp if e[0] == "call"]
        got = [e for e in got if e[0] == "call"]
        stats["call_sequences_of_sorting_aggregations_compared"] += 1
    stats[f"runs_{tool}"] += 1
    pulls = sum(1 for e in exp if e[0] == "pull")
    ends = sum(1 for e in exp if e[0] == "end")
    calls = sum(1 for e in exp if e[0] == "call")
    stats["events_compared"] += len(exp)
    stats["pull_events"] += pulls
    stats["end_events"] += ends
    stats["call_events"] += calls
    if sync.term == ("open",):
        stats["early_exit_runs"] += 1
    if ends >= 2:
        stats["runs_with_2plus_sources_ending"] += 1
    viols = []
    if asy.foreign:
        viols.append({"key": f"{tool}/foreign-suspension", "msg": asy.foreign[0]})
    exp, skipped = drop_stdlib_repolls(exp, got)
    stats["stdlib_repolls_of_exhausted_source_skipped"] += skipped
    d = first_diff(exp, got)
    if d is not None:
        key = classify(spec, exp, got, d)
        viols.append({"key": key,
                      "msg": f"{tool} {spec['params']} srcs={spec['srcs']} flav={flav}: logs differ at event {d}: "
                             f"stdlib {exp[d] if d < len(exp) else None} vs asyncstdlib {got[d] if d < len(got) else None}",
                      "detail": {"expected": exp[max(0, d - 6):d + 3], "got": got[max(0, d - 6):d + 3]}})
    for i, f in enumerate(flav):
        # chain: a re-iterable argument is ASKED for its iterator once the previous argument is used up (what a live
        # collection hands out then reflects everything that happened until then), not before
        # (LATER than the counterpart would be laziness and nothing the property rules out; EARLIER is acting ahead)
        if tool in ("chain", "chain_from_iterable") and f in ("async_iterable", "sync_iterable") and not viols and not skipped:
            a, b = sync.iter_asked.get(i), asy.iter_asked.get(i)
            stats["iterator_request_moments_compared"] += 1
            if b is None:
                continue
            seen = [j for j, g in enumerate(flav) if g not in ("list", "tuple") and j != i]
            if a is None or any(b.get(j, 0) < a.get(j, 0) for j in seen):
                viols.append({"key": f"{tool}/iterator-requested-ahead-of-the-counterpart",
                              "msg": f"{tool} {spec['params']} srcs={spec['srcs']} flav={flav}: argument {i} was asked for its "
                                     f"iterator when the sources had been used {b} times, the counterpart asks after "
                                     f"{a if a is not None else 'never (within these steps)'}"})
    if sync.term == ("open",) and not viols and not ops and hasattr(asy.handle, "aclose") and \
            any(f in ("sync_gen", "sync_iter") for f in flav):
        # the consumer stops early and closes the tool: a synchronous one-shot iterator it had handed in is the caller's -
        # like the counterpart's, it still holds whatever the tool did not take (the tool does not close it)
        async def close_tool():
            await asy.handle.aclose()
        try:
            drive(close_tool())
        except BaseException:  # noqa: BLE001
            pass
        for i, f in enumerate(flav):
            if f not in ("sync_gen", "sync_iter") or i >= len(asy.sources) or any(asy.sources[j] is asy.sources[i] for j in range(i)):
                continue
            st_i = asy.srcs[i]
            want_rest = [canon(x) for x in st_i.items[st_i.pos:]]
            try:
                got_rest = [canon(x) for x in asy.sources[i]]
            except BaseException as exc:  # noqa: BLE001
                got_rest = repr(exc)
            stats["rest_of_sync_iterators_probed_after_early_close"] += 1
            if got_rest != want_rest:
                viols.append({"key": f"{tool}/rest-of-the-input-iterator-lost",
                              "msg": f"{tool} {spec['params']} srcs={spec['srcs']} flav={flav}: the tool was closed after "
                                     f"{steps} steps; the caller's iterator {i} then gives {got_rest}, {len(want_rest)} "
                                     f"unconsumed items were expected"})
                break
    nontrivial = pulls > 0 and (ends > 0 or calls > 0 or sync.term == ("open",))
    return {"violations": viols, "nontrivial": nontrivial, "sig": (spec, flav, case.get("fnfl"))}


def finish(stats, tier):
    for need in ("pull_events", "end_events", "call_events", "early_exit_runs", "runs_with_2plus_sources_ending"):
        if not stats.get(need):
            return f"deciding counter {need} is zero"
    return None
