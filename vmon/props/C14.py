"""C14 — ExitStack unwinds like nested async-with; each exit runs exactly once."""
from __future__ import annotations

import contextlib
import itertools
import random
from collections import Counter

import asyncstdlib as A

from ..loop import CTX, drive, Suspend

ID = "C14"
LEVEL = "exploration"
ANCHORS = ["contextlib.py"]
RULE = ("(1) stacks: every stack of 0..3 entries (quick; 0..4 thorough sample + full 0..3) over {async CM, sync CM, "
        "pushed async exit, pushed sync exit, callback with args} x {falsy, truthy, raise new, raise new only while "
        "handling; sampled stacks also: raise a non-Exception BaseException} x block {normal, raises} is built once as an ExitStack and once as real nested async-with/with "
        "statements (the language is the reference); the log of exit invocations with the exception each received, "
        "callback arguments, and the outcome (suppressed / which exception object propagates) must be equal; a "
        "sample also with suspending enters/exits. (2) histories over {register, failing enter, aclose, pop_all, "
        "with-block, unwind again} checked against a multiset model (each registered exit runs exactly once overall, "
        "LIFO within one unwind, never on the original stack after pop_all, never for a failed enter); the model is "
        "cross-validated against contextlib.AsyncExitStack on the same histories. non-trivial = stack with >= 2 "
        "entries or a raising/suppressing entry, history with >= 2 unwinds; distinct = stack or history")
RULE += (" Also: exits raising standard types (StopAsyncIteration, RuntimeError, KeyError, AttributeError, TypeError, GeneratorExit, Exception, BaseException), exits whose failure carries its own context chain or happens while re-raising, the block's exception object raised again after suppression, manager objects pushed without being entered, aclose() issued inside except/finally of an unrelated exception, managers that register a callback on the stack while being entered (enter succeeding or failing), callbacks registered with keywords named callback/self.")
RULE += (' Also: exits answering an exception with an object whose truth value cannot be taken.')
RULE += (' Also: what __(a)enter__ gives is falsy and awaitable (handed on untouched).')
RULE += (" Also: histories with raising exits (an unwind ending in an exit's failure, then the same stack used again).")
RULE += (' Also: exits failing with a falsy exception instance.')
RULE += (' Also: a manager whose enter calls pop_all() on the stack it is being entered on; the same exit / manager registered twice.')
RULE += (' Also: plain callables returning the awaitable of an asynchronous exit, pushed.')
RULE += (' Also: enters failing with a BaseException that is not an Exception.')
RULE += (' Also: managers whose exit is a staticmethod / classmethod.')
RULE += (' Also: callbacks (plain and async def) registered without any arguments and returning a true value; plain callbacks handing back a future-like (non-coroutine) awaitable.')
RULE += (' Also: exit-only objects (no matching enter) pushed, also callable ones.')
RULE += (' Also: pushed exits declared with a single catch-all parameter (handed the three exception details like any other).')
RULE += (' Also: a synchronous exit raising StopIteration, against nested statements written in one frame.')
RULE += (" Also: subclasses of the library's nullcontext that override their exit.")
ASSUMPTIONS = ["nested async with/with statements of the running interpreter are the reference for routing",
               "__context__ chains are not compared"]
EXHAUSTIVE_SUBSPACES = 'all 16842 stacks of <= 3 entries x block outcome; all histories of length <= 4 (thorough: 5) over 8 operations'
EXHAUSTIVE = {"quick": False, "thorough": False}  # enumerated sub-spaces are complete, the sampled part is not

KINDS = ["acm", "scm", "apush", "spush", "cb"]
# sampled in addition: objects implementing BOTH context manager protocols (entered / only pushed)
KINDS_EXTRA = KINDS + ["dualcm", "dualpush", "scmpush", "acmpush",
                       # a plain (not ``async def``) callable handing back the awaitable of an asynchronous exit: a
                       # wrapped handler, a lambda delegating to one
                       "wpush", "wpush",
                       # managers whose exit is a staticmethod / classmethod (a class-level resource): ordinary attribute
                       # access binds them correctly, like the with statements do
                       "staticacm", "classscm",
                       # objects that offer an EXIT only (a release handle, an already entered resource): push takes them
                       "xaexit", "xexit", "xexit_callable",
                       # callbacks registered WITHOUT any arguments (plain / async def): what they return is still
                       # nobody's business - they can never suppress
                       "cb0", "acb0",
                       # a plain callable handing back an awaitable that is NOT a coroutine (a future-like job object):
                       # an asynchronous callback like any other - its job is awaited when the stack unwinds
                       "wcb", "wcb",
                       # a subclass of the library's own nullcontext that overrides its exit: a manager like any other
                       "nullsub", "nullsub"]  # ...push: a manager object pushed, never entered
BEHS = ["falsy", "truthy", "raise", "raise_if_exc"]
# sampled in addition to the enumerated behaviours: exits that raise a BaseException which is not an Exception
BEHS_EXTRA = BEHS + ["raise_base", "raise_base_if_exc", "reraise_same", "reraise_same",
                     # standard exception types a library may be tempted to catch for its own purposes
                     "raise_std:StopAsyncIteration", "raise_std:RuntimeError", "raise_std:KeyError", "raise_std:AttributeError",
                     "raise_std:TypeError", "raise_std:GeneratorExit", "raise_std:Exception", "raise_std:BaseException", "raise_chained", "raise_chained", "raise_while_reraising", "raise_while_reraising",
                     "raise_block_exception_again", "raise_block_exception_again",
                     # the exit answers an exception with an object whose truth value cannot be taken ("ambiguous",
                     # as for an array): the with statement's own truth test fails, which is one more exception
                     # raised while leaving that block - the enclosing exits still run and may handle it
                     "ambiguous_if_exc", "ambiguous_if_exc",
                     # the exit fails with an exception INSTANCE that tests false (a collection-style "Problems" error
                     # that is currently empty): an exception like any other
                     "raise_falsy", "raise_falsy", "raise_falsy_if_exc"]
STD = {"StopAsyncIteration": StopAsyncIteration, "RuntimeError": RuntimeError, "KeyError": KeyError,
       "AttributeError": AttributeError, "TypeError": TypeError, "GeneratorExit": GeneratorExit,
       "Exception": Exception, "BaseException": BaseException}
FALSY = [None, False, 0, ""]
TRUTHY = [True, 1, "y"]
N_HIST = {"quick": 30000, "thorough": 1000000}
N_STACK4 = {"quick": 20000, "thorough": 2000000}


class E(Exception):
    def __init__(self, n):
        self.n = n
        super().__init__(n)


class EFalsy(E):
    """An exception whose instances are falsy (``__len__`` of a collection-style error is 0)."""

    def __len__(self):
        return 0


class EB(BaseException):
    """An exit handler may also fail with a BaseException that is not an Exception."""

    def __init__(self, n):
        self.n = n
        super().__init__(n)


def cases(tier, seed, shard, nshards):
    idx = 0
    for n in range(0, 4):
        for spec in itertools.product(itertools.product(KINDS, BEHS), repeat=n):
            for body in (False, True):
                idx += 1
                if idx % nshards == shard:
                    yield {"kind": "stack", "spec": [list(e) for e in spec], "body": body, "susp": 0}
    if shard == 0:
        for inner in ("enter_context", "push"):
            for outer_suppresses in (False, True):
                for body in (False, True):
                    for stop in ("StopIteration", "StopIterationSub"):
                        yield {"kind": "stop_from_sync_exit", "inner": inner, "outer_suppresses": outer_suppresses,
                               "body": body, "stop": stop}
    rng = random.Random(f"C14-{seed}-{shard}")
    for _ in range(N_STACK4[tier] // nshards):
        n = rng.choice([4, 4, 5, 3, 2])
        yield {"kind": "stack", "spec": [[rng.choice(KINDS_EXTRA), rng.choice(BEHS_EXTRA)] for _ in range(n)],
               "body": rng.random() < 0.6, "susp": rng.choice([0, 1, 1, 2])}
    # histories: enumerated up to length 4 over a small alphabet, random beyond
    alphabet = [["reg", "acm"], ["reg", "cb"], ["aclose", 0], ["pop_all", 0], ["block", 0, False], ["block", 0, True],
                ["enter_fail", 0], ["aclose", 1], ["reg", "popper"], ["aclose", 0, "except"], ["reg", "enterreg"],
                ["reg", "enterreg_fail"], ["reg", "raiser"], ["reg", "enterpop"], ["reg", "dup_apush"]]
    maxlen = 4 if tier == "quick" else 5
    for n in range(1, maxlen + 1):
        for hist in itertools.product(alphabet, repeat=n):
            idx += 1
            if idx % nshards == shard:
                yield {"kind": "history", "ops": [list(op) for op in hist]}
    for _ in range(N_HIST[tier] // nshards):
        ops = []
        nstacks = 1
        for _ in range(rng.randint(1, 10)):
            r = rng.random()
            k = rng.randrange(nstacks)
            if r < 0.07:
                ops.append(["reg", "popper", k])
                nstacks += 1  # a stack is created when (if) the popper runs; indices beyond are folded to 0
            elif r < 0.4:
                ops.append(["reg", rng.choice(KINDS + ["enterreg", "enterreg_fail", "raiser", "raiser", "enterpop", "enterpop_sync", "dup_apush", "dup_spush", "dup_acm"]), k])
                if ops[-1][1].startswith("enterpop"):
                    nstacks += 1
            elif r < 0.5:
                ops.append(["enter_fail", k])
            elif r < 0.65:
                ops.append(["aclose", k] + ([rng.choice(["except", "finally"])] if rng.random() < 0.4 else []))
            elif r < 0.8:
                ops.append(["pop_all", k])
                nstacks += 1
            else:
                ops.append(["block", k, rng.random() < 0.4])
        yield {"kind": "history", "ops": ops}


# ---------------------------------------------------------------------------
# stacks vs nested statements
# ---------------------------------------------------------------------------

class EnterValue:
    """What the managers' ``__(a)enter__`` give: falsy, and it happens to be awaitable (a connection object, say).
    ``enter_context`` hands it on untouched - it is never awaited and its truth value is nobody's business."""

    def __init__(self, i):
        self.i = i

    def __eq__(self, other):
        return isinstance(other, EnterValue) and other.i == self.i

    def __hash__(self):
        return hash(("EnterValue", self.i))

    def __bool__(self):
        return False

    def __repr__(self):
        return f"EnterValue({self.i})"

    def __await__(self):
        CTX.foreign.append(f"the value {self!r} given by a manager's __(a)enter__ was awaited")
        return self
        yield  # pragma: no cover


def mk_entry(kind, beh, i, log, susp, choice, shared=None):
    def exit_logic(et, ev, tb):
        log.append(("exit", i, None if ev is None else getattr(ev, "n", type(ev).__name__),
                    None if et is None else et.__name__))
        if beh == "falsy":
            return FALSY[choice % len(FALSY)]
        if beh == "truthy":
            return TRUTHY[choice % len(TRUTHY)]
        if beh == "raise":
            raise E(f"x{i}")
        if beh == "raise_if_exc":
            if ev is not None:
                raise E(f"h{i}")
            return None
        if beh == "raise_falsy":
            raise EFalsy(f"f{i}")
        if beh == "raise_falsy_if_exc":
            if ev is not None:
                raise EFalsy(f"fh{i}")
            return None
        if beh == "ambiguous_if_exc":
            if ev is not None:
                class Ambiguous:
                    def __bool__(self):
                        raise E(f"amb{i}")

                return Ambiguous()
            return None
        if beh == "reraise_same":
            # hand the very exception that is in flight back (what `raise` in an except clause does)
            if ev is not None:
                raise ev
            return None
        if beh.startswith("raise_std:"):
            raise STD[beh.split(":")[1]](f"s{i}")
        if beh == "raise_block_exception_again":
            # a kept reference to the block's exception is raised (again) whatever this handler received - also
            # after a later-registered handler had suppressed it
            if shared and shared.get("body") is not None:
                raise shared["body"]
            return None
        if beh == "raise_while_reraising":
            # the handler re-raises what it received and fails while handling THAT: the new exception's context is
            # the received exception by the interpreter's own doing
            if ev is not None:
                try:
                    raise ev
                except BaseException:
                    raise E(f"w{i}")
            return None
        if beh == "raise_chained":
            # the handler's own failure already carries a context chain of its own
            try:
                try:
                    raise E(f"inner{i}")
                except E:
                    raise E(f"middle{i}")
            except E:
                raise E(f"x{i}")
        if beh == "raise_base":
            raise EB(f"b{i}")
        if beh == "raise_base_if_exc":
            if ev is not None:
                raise EB(f"bh{i}")
            return None

    class ACM:
        async def __aenter__(self):
            if susp:
                await Suspend(("enter", i), susp)
            log.append(("enter", i))
            return EnterValue(i)

        async def __aexit__(self, et, ev, tb):
            if susp:
                await Suspend(("exit", i), susp)
            return exit_logic(et, ev, tb)

    class SCM:
        def __enter__(self):
            log.append(("enter", i))
            return EnterValue(i)

        def __exit__(self, et, ev, tb):
            return exit_logic(et, ev, tb)

    class Dual(ACM):
        """Both protocols; `async with` (and therefore the stack) must use the async one."""

        def __enter__(self):
            log.append(("sync-enter-used", i))
            return EnterValue(i)

        def __exit__(self, et, ev, tb):
            log.append(("sync-exit-used", i))
            return False

    if kind == "xaexit":
        class AsyncExitOnly:
            async def __aexit__(self, et, ev, tb):
                if susp:
                    await Suspend(("exit", i), susp)
                return exit_logic(et, ev, tb)
        return AsyncExitOnly()
    if kind in ("xexit", "xexit_callable"):
        class ExitOnly:
            def __exit__(self, et, ev, tb):
                return exit_logic(et, ev, tb)
        if kind == "xexit_callable":
            class ExitOnlyCallable(ExitOnly):
                def __call__(self, *args, **kw):
                    log.append(("called-instead-of-exited", i))
                    return True
            return ExitOnlyCallable()
        return ExitOnly()
    if kind == "staticacm":
        class StaticExitACM(ACM):
            @staticmethod
            async def __aexit__(et, ev, tb):
                if susp:
                    await Suspend(("exit", i), susp)
                return exit_logic(et, ev, tb)
        return StaticExitACM()
    if kind == "classscm":
        class ClassExitSCM(SCM):
            @classmethod
            def __exit__(cls, et, ev, tb):
                return exit_logic(et, ev, tb)
        return ClassExitSCM()
    if kind == "nullsub":
        class Tracing(A.nullcontext):
            async def __aenter__(self):
                log.append(("enter", i))
                return EnterValue(i)

            async def __aexit__(self, et, ev, tb):
                if susp:
                    await Suspend(("exit", i), susp)
                return exit_logic(et, ev, tb)

        return Tracing()
    if kind in ("acm", "acmpush"):
        return ACM()
    if kind in ("scm", "scmpush"):
        return SCM()
    if kind in ("dualcm", "dualpush"):
        return Dual()
    if kind == "apush":
        async def aexit(et, ev, tb):
            if susp:
                await Suspend(("exit", i), susp)
            return exit_logic(et, ev, tb)

        async def aexit_star(*details):
            # (declared with ONE catch-all parameter: it is handed the three exception details all the same)
            if susp:
                await Suspend(("exit", i), susp)
            return exit_logic(*details)

        return aexit_star if i % 2 else aexit
    if kind == "wpush":
        async def aexit2(et, ev, tb):
            if susp:
                await Suspend(("exit", i), susp)
            return exit_logic(et, ev, tb)

        return lambda et, ev, tb: aexit2(et, ev, tb)
    if kind == "spush":
        return (lambda *details: exit_logic(*details)) if i % 2 else exit_logic
    if kind == "wcb":
        class Job:
            def __init__(self, args, kw):
                self.args, self.kw = args, kw

            def __await__(self):
                log.append(("cb", i, self.args, tuple(self.kw.items())))
                if susp:
                    yield from Suspend(("cb", i), susp).__await__()
                if beh in ("raise", "raise_if_exc"):
                    raise E(f"c{i}")
                if beh.startswith("raise_base"):
                    raise EB(f"cb{i}")
                if beh.startswith("raise_std:"):
                    raise STD[beh.split(":")[1]](f"cs{i}")
                return True

        def wcb(*args, **kw):
            return Job(args, kw)

        return wcb
    if kind == "acb0":
        async def acb(*args, **kw):
            log.append(("cb", i, args, tuple(kw.items())))
            if susp:
                await Suspend(("cb", i), susp)
            if beh in ("raise", "raise_if_exc"):
                raise E(f"c{i}")
            if beh.startswith("raise_base"):
                raise EB(f"cb{i}")
            if beh.startswith("raise_std:"):
                raise STD[beh.split(":")[1]](f"cs{i}")
            return True

        return acb
    if kind in ("cb", "cb0"):
        def cb(*args, **kw):
            log.append(("cb", i, args, tuple(kw.items())))
            if beh in ("raise", "raise_if_exc"):
                raise E(f"c{i}")
            if beh.startswith("raise_base"):
                raise EB(f"cb{i}")
            if beh.startswith("raise_std:"):
                raise STD[beh.split(":")[1]](f"cs{i}")
            return True  # callbacks can never suppress

        return cb
    raise ValueError(kind)


def run_stack(case, stats):
    spec = case["spec"]
    n = len(spec)
    susp = case.get("susp", 0)
    body = case["body"]

    # --- reference: the language's own nested statements -----------------------------
    CTX.reset()
    l1 = []
    body_exc1 = E("body")
    ents = [mk_entry(k, b, i, l1, susp, i, {"body": body_exc1 if body else None}) for i, (k, b) in enumerate(spec)]

    async def nest(i):
        if i == n:
            l1.append(("body",))
            if body:
                raise body_exc1
            return
        k, _ = spec[i]
        e = ents[i]
        if k in ("acm", "dualcm", "staticacm", "nullsub"):
            async with e as v:
                l1.append(("value", v))
                await nest(i + 1)
        elif k == "dualpush":
            class W:
                async def __aenter__(self):
                    pass

                async def __aexit__(self, *x):
                    return await e.__aexit__(*x)

            async with W():
                await nest(i + 1)
        elif k in ("scm", "classscm"):
            with e as v:
                l1.append(("value", v))
                await nest(i + 1)
        elif k in ("scmpush", "acmpush", "xaexit", "xexit", "xexit_callable"):
            class W:
                async def __aenter__(self):
                    pass

                async def __aexit__(self, *x, _k=k):
                    if _k in ("scmpush", "xexit", "xexit_callable"):
                        return e.__exit__(*x)
                    return await e.__aexit__(*x)

            async with W():
                await nest(i + 1)
        elif k in ("apush", "wpush"):
            class W:
                async def __aenter__(self):
                    pass

                async def __aexit__(self, *x):
                    return await e(*x)

            async with W():
                await nest(i + 1)
        elif k == "spush":
            class W:
                async def __aenter__(self):
                    pass

                async def __aexit__(self, *x):
                    return e(*x)

            async with W():
                await nest(i + 1)
        elif k == "wcb":
            class W:
                async def __aenter__(self):
                    pass

                async def __aexit__(self, *x):
                    await e(i, kw=i, callback=i, self=i)
                    return False

            async with W():
                await nest(i + 1)
        elif k in ("cb0", "acb0"):
            class W:
                async def __aenter__(self):
                    pass

                async def __aexit__(self, *x, _k=k):
                    if _k == "acb0":
                        await e()
                    else:
                        e()
                    return False

            async with W():
                await nest(i + 1)
        else:
            class W:
                async def __aenter__(self):
                    pass

                async def __aexit__(self, *x):
                    e(i, kw=i, callback=i, self=i)
                    return False

            async with W():
                await nest(i + 1)

    try:
        drive(nest(0))
        r1 = ("ok",)
    except (E, EB) as x:
        r1 = ("raise", x.n, x is body_exc1)
    except tuple(STD.values()) as x:
        r1 = ("raise", type(x).__name__, str(x))

    # --- ExitStack ----------------------------------------------------------------------
    CTX.reset()
    l2 = []
    body_exc2 = E("body")
    ents2 = [mk_entry(k, b, i, l2, susp, i, {"body": body_exc2 if body else None}) for i, (k, b) in enumerate(spec)]
    misc = []

    async def st():
        async with A.ExitStack() as s:
            for i, (k, _) in enumerate(spec):
                e = ents2[i]
                if k in ("acm", "scm", "dualcm", "staticacm", "classscm", "nullsub"):
                    v = await s.enter_context(e)
                    l2.append(("value", v))
                elif k in ("apush", "wpush", "spush", "dualpush", "scmpush", "acmpush", "xaexit", "xexit", "xexit_callable"):
                    if s.push(e) is not e:
                        misc.append("push did not return its argument")
                elif k in ("cb0", "acb0"):
                    if s.callback(e) is not e:
                        misc.append("callback did not return its argument")
                else:
                    if s.callback(e, i, kw=i, callback=i, self=i) is not e:
                        misc.append("callback did not return its argument")
            l2.append(("body",))
            if body:
                raise body_exc2

    try:
        drive(st())
        r2 = ("ok",)
    except (E, EB) as x:
        r2 = ("raise", x.n, x is body_exc2)
    except tuple(STD.values()) as x:
        r2 = ("raise", type(x).__name__, str(x))
    stats["stacks"] += 1
    stats[f"stack_size_{min(n, 5)}"] += 1
    if r1 == ("ok",) and body:
        stats["suppressed_body_exception"] += 1
    if r1[0] == "raise" and not r1[2]:
        stats["replaced_exception"] += 1
    if any(b.startswith("raise_base") for _, b in spec):
        stats["stacks_with_baseexception_exit"] += 1
    if any(ev[0] == "exit" and ev[2] is None for ev in l1) and body:
        stats["exit_saw_none_after_suppression"] += 1
    viols = []
    if CTX.foreign:
        viols.append({"key": "ExitStack/foreign-suspension", "msg": CTX.foreign[0]})
    for m in misc:
        viols.append({"key": "ExitStack/return-value", "msg": m})
    if (r1, l1) != (r2, l2):
        what = "outcome" if r1 != r2 else "exit-log"
        viols.append({"key": f"ExitStack/{what}",
                      "msg": f"stack {spec} body_raises={body} susp={susp}: nested statements give {r1} {l1}; "
                             f"ExitStack gives {r2} {l2}"[:1200]})
    nontrivial = n >= 2 or any(b != "falsy" for _, b in spec)
    return {"violations": viols, "nontrivial": nontrivial, "sig": ("stack", str(spec), body, susp)}


# ---------------------------------------------------------------------------
# histories vs multiset model (cross-validated against contextlib.AsyncExitStack)
# ---------------------------------------------------------------------------

class _Adapter:
    """contextlib.AsyncExitStack behind the asyncstdlib.ExitStack interface (oracle self-test)."""

    def __init__(self, stack=None):
        self.s = stack or contextlib.AsyncExitStack()

    def push_kind(self, kind, obj, i):
        if kind == "apush":
            self.s.push_async_exit(obj)
        elif kind == "spush":
            self.s.push(obj)
        else:
            self.s.callback(obj, i, kw=i, callback=i, self=i)

    async def enter(self, kind, obj):
        if kind == "acm":
            return await self.s.enter_async_context(obj)
        return self.s.enter_context(obj)

    def pop_all(self):
        return _Adapter(self.s.pop_all())

    async def aclose(self):
        await self.s.aclose()

    async def __aenter__(self):
        await self.s.__aenter__()
        return self

    async def __aexit__(self, *a):
        return await self.s.__aexit__(*a)


class _Native:
    def __init__(self, stack=None):
        self.s = stack or A.ExitStack()

    def push_kind(self, kind, obj, i):
        if kind in ("apush", "spush"):
            self.s.push(obj)
        else:
            self.s.callback(obj, i, kw=i, callback=i, self=i)

    async def enter(self, kind, obj):
        return await self.s.enter_context(obj)

    def pop_all(self):
        return _Native(self.s.pop_all())

    async def aclose(self):
        await self.s.aclose()

    async def __aenter__(self):
        await self.s.__aenter__()
        return self

    async def __aexit__(self, *a):
        return await self.s.__aexit__(*a)


def exec_history(ops, factory):
    """Returns list per op of the exit/cb ids that ran (in order) and raised markers."""
    CTX.reset()
    log = []
    per_op = []

    class FailEnter:
        async def __aenter__(self):
            raise E("enter")

        async def __aexit__(self, *a):
            log.append(("exit", "failed-enter"))

    class FailEnterSync:
        def __enter__(self):
            raise E("enter")

        def __exit__(self, *a):
            log.append(("exit", "failed-enter"))

    class FailEnterAttr:
        """__aenter__ fails with an AttributeError of its own (async-only manager)."""

        async def __aenter__(self):
            raise AttributeError("enter")

        async def __aexit__(self, *a):
            log.append(("exit", "failed-enter"))

    class FailEnterAttrDual(FailEnterAttr):
        """... and the manager also offers the synchronous protocol, which must not be used instead."""

        def __enter__(self):
            log.append(("exit", "sync-protocol-used-after-failed-aenter"))

        def __exit__(self, *a):
            log.append(("exit", "failed-enter"))

    class FailEnterBase:
        """__aenter__ is interrupted by a BaseException that is not an Exception (a cancellation, KeyboardInterrupt):
        an enter that failed is an enter that failed - the manager is not exited."""

        async def __aenter__(self):
            raise EB("enter")

        async def __aexit__(self, *a):
            log.append(("exit", "failed-enter"))

    class FailEnterBaseSync:
        def __enter__(self):
            raise EB("enter")

        def __exit__(self, *a):
            log.append(("exit", "failed-enter"))

    async def main():
        stacks = [factory()]
        nid = 0
        for op in ops:
            mark = len(log)
            k = op[-1] if op[0] in ("reg", "enter_fail") and len(op) > 2 - (op[0] == "enter_fail") else None
            try:
                if op[0] == "reg":
                    kind = op[1]
                    k = op[2] if len(op) > 2 else 0
                    if k >= len(stacks):
                        k = 0
                    if kind in ("enterreg", "enterreg_fail"):
                        # a manager that registers a callback on the same stack WHILE it is being entered (acquiring a
                        # sub-resource), and whose enter then succeeds or fails
                        cm_id, cb_id = nid, nid + 1
                        nid += 2

                        def sub_release(*a, _i=cb_id, **kw):
                            log.append(("cb", _i, a, tuple(kw.items())))

                        class RegDuringEnter:
                            async def __aenter__(self, _k=k, _fail=(kind == "enterreg_fail")):
                                stacks[_k].push_kind("cb", sub_release, cb_id)
                                if _fail:
                                    raise E("enter")
                                return self

                            async def __aexit__(self, et, ev, tb, _i=cm_id):
                                log.append(("exit", _i, None if ev is None else getattr(ev, "n", type(ev).__name__),
                                            None if et is None else et.__name__))
                                return False

                        try:
                            await stacks[k].enter("acm", RegDuringEnter())
                        except E as x:
                            log.append(("enter-raised", x.n))
                        per_op.append([ev for ev in log[mark:] if ev[0] in ("exit", "cb", "enter-raised", "block-raised", "op-raised")])
                        continue
                    if kind in ("enterpop", "enterpop_sync"):
                        # a manager that, WHILE it is being entered, moves everything registered so far to a new stack
                        # (handing the resources acquired up to here to someone else): its own exit is registered
                        # afterwards, on what the stack holds THEN - it belongs to the stack it was entered on
                        cm_id = nid
                        nid += 1

                        class PopDuringEnter:
                            async def __aenter__(self, _k=k):
                                stacks.append(stacks[_k].pop_all())
                                return self

                            async def __aexit__(self, et, ev, tb, _i=cm_id):
                                log.append(("exit", _i, None if ev is None else getattr(ev, "n", type(ev).__name__),
                                            None if et is None else et.__name__))
                                return False

                        class PopDuringEnterSync:
                            def __enter__(self, _k=k):
                                stacks.append(stacks[_k].pop_all())
                                return self

                            def __exit__(self, et, ev, tb, _i=cm_id):
                                log.append(("exit", _i, None if ev is None else getattr(ev, "n", type(ev).__name__),
                                            None if et is None else et.__name__))
                                return False

                        if kind == "enterpop":
                            await stacks[k].enter("acm", PopDuringEnter())
                        else:
                            await stacks[k].enter("scm", PopDuringEnterSync())
                        per_op.append([ev for ev in log[mark:] if ev[0] in ("exit", "cb", "enter-raised", "block-raised", "op-raised")])
                        continue
                    if kind == "popper":
                        # a callback that, while its stack unwinds, moves everything still registered to a new stack
                        def popper(*a, _k=k, _i=nid, **kw):
                            log.append(("cb", _i, a, tuple(kw.items())))
                            stacks.append(stacks[_k].pop_all())

                        stacks[k].push_kind("cb", popper, nid)
                    elif kind == "raiser":
                        # an exit that fails: the unwind it belongs to ends by propagating ITS exception - and the
                        # stack object stays as usable afterwards as any other
                        await stacks[k].enter("acm", mk_entry("acm", "raise", nid, log, 0, 0))
                    elif kind.startswith("dup_"):
                        # the SAME exit function / manager object registered twice: two registrations, two runs
                        ent = mk_entry(kind[4:], "falsy", nid, log, 0, 0)
                        for _ in range(2):
                            if kind == "dup_acm":
                                await stacks[k].enter("acm", ent)
                            else:
                                stacks[k].push_kind(kind[4:], ent, nid)
                    else:
                        ent = mk_entry(kind, "falsy", nid, log, 0, 0)
                        if kind in ("acm", "scm"):
                            await stacks[k].enter(kind, ent)
                        else:
                            stacks[k].push_kind(kind, ent, nid)
                    nid += 1
                elif op[0] == "enter_fail":
                    k = op[1] if op[1] < len(stacks) else 0
                    try:
                        variant = (nid + len(ops)) % 6
                        if variant == 4:
                            await stacks[k].enter("acm", FailEnterBase())
                        elif variant == 5:
                            await stacks[k].enter("scm", FailEnterBaseSync())
                        elif variant == 0:
                            await stacks[k].enter("scm", FailEnterSync())
                        elif variant == 1:
                            await stacks[k].enter("acm", FailEnter())
                        elif variant == 2:
                            await stacks[k].enter("acm", FailEnterAttr())
                        else:
                            await stacks[k].enter("acm", FailEnterAttrDual())
                    except (E, EB) as x:
                        log.append(("enter-raised", x.n))
                    except AttributeError as x:
                        # the very error of __aenter__ ("enter"), not a secondary one about a missing method
                        log.append(("enter-raised", str(x)))
                elif op[0] == "aclose":
                    k = op[1] if op[1] < len(stacks) else 0
                    where = op[2] if len(op) > 2 else None
                    if where == "except":
                        # closing the stack while an unrelated exception is being handled: still a NORMAL end
                        try:
                            raise E("unrelated")
                        except E:
                            await stacks[k].aclose()
                    elif where == "finally":
                        try:
                            try:
                                raise E("unrelated")
                            finally:
                                await stacks[k].aclose()
                        except E:
                            pass
                    else:
                        await stacks[k].aclose()
                elif op[0] == "pop_all":
                    k = op[1] if op[1] < len(stacks) else 0
                    stacks.append(stacks[k].pop_all())
                elif op[0] == "block":
                    k = op[1] if op[1] < len(stacks) else 0
                    try:
                        async with stacks[k]:
                            if op[2]:
                                raise E("block")
                    except E as x:
                        log.append(("block-raised", x.n))
            except BaseException as exc:  # noqa: BLE001
                log.append(("op-raised", type(exc).__name__, str(exc)[:60]))
            per_op.append([ev for ev in log[mark:] if ev[0] in ("exit", "cb", "enter-raised", "block-raised", "op-raised")])

    drive(main())
    return per_op


def model_history(ops):
    pending = [[]]
    nid = 0
    out = []
    for op in ops:
        ran = []
        if op[0] == "reg" and op[1] in ("enterreg", "enterreg_fail"):
            k = op[2] if len(op) > 2 and op[2] < len(pending) else 0
            pending[k].append((nid + 1, "cb", k))  # registered during the enter: below the manager's own exit
            if op[1] == "enterreg":
                pending[k].append((nid, "acm", k))
            else:
                ran.append(("enter-raised", "enter"))
            nid += 2
        elif op[0] == "reg" and op[1] in ("enterpop", "enterpop_sync"):
            k = op[2] if len(op) > 2 and op[2] < len(pending) else 0
            pending.append(pending[k])
            pending[k] = [(nid, "acm", k)]
            nid += 1
        elif op[0] == "reg":
            k = op[2] if len(op) > 2 and op[2] < len(pending) else 0
            pending[k].append((nid, op[1], k))
            if op[1].startswith("dup_"):
                pending[k].append((nid, op[1], k))
            nid += 1
        elif op[0] == "enter_fail":
            ran.append(("enter-raised", "enter"))
        elif op[0] in ("aclose", "block"):
            k = op[1] if op[1] < len(pending) else 0
            exc = "block" if (op[0] == "block" and op[2]) else None
            # like the implementations: entries are popped one by one from the stack's *current* content
            while pending[k]:
                if pending[k][-1][1] == "raiser":
                    i = pending[k].pop()[0]
                    ran.append(("exit", i, exc, "E" if exc else None))
                    exc = f"x{i}"  # from here on this exit's own failure is what the remaining exits see
                    continue
                entry = pending[k].pop()
                i, kind = entry[0], entry[1]
                if kind == "popper":
                    ran.append(("cb", i, (i,), (("kw", i), ("callback", i), ("self", i))))
                    origin = entry[2]
                    # whatever the stack it was registered on holds right now moves to a new stack
                    pending.append(pending[origin])
                    pending[origin] = []
                elif kind == "cb":
                    ran.append(("cb", i, (i,), (("kw", i), ("callback", i), ("self", i))))
                else:
                    ran.append(("exit", i, exc, "E" if exc else None))
            if exc and op[0] == "block":
                ran.append(("block-raised", exc))
            elif exc and not (len(op) > 2 and op[2] == "finally"):
                # (the "finally" variant of the history's aclose swallows E itself)
                ran.append(("op-raised", "E", exc))
        elif op[0] == "pop_all":
            k = op[1] if op[1] < len(pending) else 0
            pending.append(pending[k])
            pending[k] = []
        out.append(ran)
    return out


def run_history(case, stats):
    ops = case["ops"]
    want = model_history(ops)
    ref = exec_history(ops, _Adapter)
    got = exec_history(ops, _Native)
    viols = []
    stats["histories"] += 1
    stats["oracle_selftest"] += 1
    unwinds = sum(1 for op in ops if op[0] in ("aclose", "block"))
    if unwinds >= 2:
        stats["histories_with_repeated_unwind"] += 1
    if any(op[0] == "pop_all" for op in ops):
        stats["histories_with_pop_all"] += 1
    if ref != want:
        viols.append({"key": "ORACLE/model-disagrees-with-AsyncExitStack",
                      "msg": f"history {ops}: model {want} vs contextlib.AsyncExitStack {ref} (harness bug)"[:900]})
    if CTX.foreign:
        viols.append({"key": "ExitStack/foreign-suspension", "msg": CTX.foreign[0]})
    if got != want:
        first = next(i for i, (a, b) in enumerate(zip(got, want)) if a != b)
        ran_before = [ev[1] for evs in got[:first] for ev in evs if ev[0] in ("exit", "cb")]
        again = [ev[1] for ev in got[first] if ev[0] in ("exit", "cb") and ev[1] in ran_before]
        if again:
            key = "ExitStack/exit-runs-again-on-later-unwind"
        elif any(ev == ("exit", "failed-enter") for ev in got[first]):
            key = "ExitStack/failed-enter-exited"
        else:
            key = "ExitStack/history"
        viols.append({"key": key, "msg": f"history {ops}: at op {first} {ops[first]} exits run {got[first]}, expected "
                                         f"{want[first]}"[:900]})
    return {"violations": viols, "nontrivial": unwinds >= 2 or any(op[0] == "pop_all" for op in ops),
            "sig": ("history", str(ops))}


def run_stop_from_sync_exit(case, stats):
    """A synchronous manager's ``__exit__`` raises StopIteration (it polled an exhausted iterator) while the stack
    unwinds.  Written as nested statements IN ONE FRAME - ``async with outer: with inner: body`` - the outer exit receives
    that very StopIteration (and may suppress it); the generator protocol turns it into a RuntimeError only where it
    leaves the coroutine.  (The recursive reference of ``run_stack`` has a coroutine frame per level and cannot be used
    for this exception type: that is why it is enumerated here, flat.)"""
    CTX.reset()

    class StopSub(StopIteration):
        pass

    stop_type = StopIteration if case["stop"] == "StopIteration" else StopSub

    def parts(log):
        stop = stop_type("the exit polled an exhausted iterator")

        class Outer:
            async def __aenter__(self):
                log.append("enter outer")

            async def __aexit__(self, et, ev, tb):
                log.append(("exit outer", type(ev).__name__ if ev is not None else None, ev is stop))
                return case["outer_suppresses"]

        class Inner:
            def __enter__(self):
                log.append("enter inner")

            def __exit__(self, et, ev, tb):
                log.append(("exit inner", type(ev).__name__ if ev is not None else None))
                raise stop

        return Outer(), Inner(), stop

    def outcome_of(coro, stop):
        try:
            drive(coro)
            return ("ok",)
        except BaseException as exc:  # noqa: BLE001
            return ("raise", type(exc).__name__, exc is stop, type(exc.__cause__).__name__)

    l1 = []
    o1, i1, stop1 = parts(l1)

    async def nested():
        async with o1:
            with i1:
                l1.append("body")
                if case["body"]:
                    raise E("body")

    want = outcome_of(nested(), stop1)
    l2 = []
    o2, i2, stop2 = parts(l2)

    async def stacked():
        async with A.ExitStack() as s:
            await s.enter_context(o2)
            if case["inner"] == "enter_context":
                await s.enter_context(i2)
            else:
                i2.__enter__()
                s.push(i2)
            l2.append("body")
            if case["body"]:
                raise E("body")

    got = outcome_of(stacked(), stop2)
    viols = []
    if (want, l1) != (got, l2):
        viols.append({"key": "ExitStack/stop-iteration-from-a-synchronous-exit",
                      "msg": f"{case}: nested statements in one frame give {want} {l1}; ExitStack gives {got} {l2}"})
    if CTX.foreign:
        viols.append({"key": "ExitStack/foreign-suspension", "msg": CTX.foreign[0]})
    stats["stop_iteration_from_sync_exit_runs"] += 1
    return {"violations": viols, "nontrivial": True, "sig": tuple(sorted(case.items()))}


def run_case(case, stats: Counter):
    if case["kind"] == "stop_from_sync_exit":
        return run_stop_from_sync_exit(case, stats)
    if case["kind"] == "stack":
        return run_stack(case, stats)
    return run_history(case, stats)


def finish(stats, tier):
    for need in ("stacks", "suppressed_body_exception", "replaced_exception", "exit_saw_none_after_suppression",
                 "histories_with_repeated_unwind", "histories_with_pop_all", "oracle_selftest",
                 "stacks_with_baseexception_exit"):
        if not stats.get(need):
            return f"deciding counter {need} is zero"
    return None
