"""C10 — lru_cache equals functools.lru_cache over every sequential call history."""
from __future__ import annotations

import functools
import itertools
import random
from collections import Counter, OrderedDict

import asyncstdlib as A

from ..loop import CTX, run_sync
from ..tools import decode
from ..probes import PLANNED, PLANNED_NAMES as _PLANNED_NAMES

ID = "C10"
LEVEL = "exploration"
ANCHORS = ["_lrucache.py", "functools.py"]
RULE = ("lock-step differential: every operation of a history (awaited call, failing call, cache_clear, "
        "cache_discard, cache_info, cache_parameters) is applied to an asyncstdlib.lru_cache around an async function "
        "and to functools.lru_cache around its sync twin (plus an OrderedDict+functools._make_key model that also "
        "implements cache_discard and is cross-validated against functools on every discard-free history of the "
        "run); results, invocation logs, cache_info and cache_parameters are compared after EVERY operation. "
        "All histories of length <= 4 over a 7-operation alphabet for maxsize 1 and 2 are enumerated; seeded random "
        "histories up to length 40 over patterns mixing 0 1 2 1.0 True False '1' 'a' None (1,2) (1.0,2) 0.0 -0.0, "
        "0..3 positional and 0..2 keyword args in both keyword orders; maxsize None/-1/0/1..5/default; typed; bare "
        "and parenthesised decorators; function/method (two instances)/classmethod/staticmethod; RE-ENTRANT histories: "
        "the wrapped function calls its own cache for other arguments along a random DAG / fib-like recursion deeper "
        "than maxsize, with failing nodes and clears between top-level calls. non-trivial = "
        "history with at least one hit and (one eviction or one discard or one clear or a failing call); "
        "distinct = (configuration, history)")
RULE += (" Also: results None/0/False/''/() ; keyword names self/key/args/typed; failing calls raising every standard exception type (incl. falsy exception instances); bound/unbound access sharing one store.")
RULE += (' Also: lru_cache(maxsize=<anything>) construction against functools; opaque results.')
RULE += (' Also: the decorator applied directly with typed (lru_cache(fn, True)); results that happen to be awaitable.')
RULE += (' Also: re-entrant histories with warm-up nodes (the first run for an argument calls the cache for the same argument).')
RULE += (' Also: re-entrant histories in which a run clears the cache it is computed for.')
RULE += (' Also: transient failures in re-entrant histories (the first-started run for an argument fails after its warm-up call succeeded).')
RULE += (' Also: a cache stacked on a cache against two functools layers (clears of either layer, direct calls of the inner one).')
RULE += (' Also: a keyword of one call as positional (name, value) tuple of another; keyword order permutations.')
RULE += (' Also: cached functions failing with BaseExceptions that are no Exceptions (aborts, CancelledError): a counted miss that caches nothing.')
RULE += (' Also: the caller modifies what cache_parameters() handed out; the cache keeps the parameters it was created with.')
RULE += (" Also: instances that are copies of an instance whose cached method was already looked up; subclasses overriding a cached method with another cached method that awaits super()'s.")
RULE += (" Also: caches over callable objects stored in a class body bind like functools' caches do.")
RULE += (' Also: keyword-only calls next to positional calls whose tuples look like keyword items (f(x=v) / f(("x", v))).')
RULE += (' Also: f(*P, k=v) next to the positional f(*P, None, ("k", v)) (a passable value where a key separator could sit).')
ASSUMPTIONS = ["functools.lru_cache (C implementation of the running 3.12 interpreter) is the reference",
               "cache_discard has no stdlib twin: reference is the cross-validated model"]
EXHAUSTIVE_SUBSPACES = 'all histories of length <= 4 (thorough: 5) over 7 operations for maxsize 1 and 2'
EXHAUSTIVE = {"quick": False, "thorough": False}
N_RANDOM = {"quick": 60000, "thorough": 3000000}

VALUES = [0, 1, 2, ["f", "1.0"], True, False, "1", "a", None, ["T", 1, 2], ["T", ["f", "1.0"], 2], ["f", "0.0"],
          ["f", "-0.0"]]
KWNAMES = ["x", "y", "self", "key", "args", "typed"]  # incl. names the cache objects use for their own parameters


def rand_pattern(rng, small=False):
    vals = VALUES[:5] if small else VALUES
    nargs = rng.choice([0, 1, 1, 1, 2, 3])
    args = [rng.choice(vals) for _ in range(nargs)]
    nkw = rng.choice([0, 0, 0, 1, 2])
    names = rng.sample(KWNAMES, nkw)
    kwargs = [[n, rng.choice(vals)] for n in names]
    if rng.random() < 0.03:
        args = [["L", 1]]  # unhashable
    if rng.random() < 0.06:
        # a keyword-only call and its positional look-alike: f(x=v) and f(("x", v)) - tuples shaped like keyword items
        v = rng.choice([0, 1])
        return rng.choice([[[], [["x", v]]], [[["T", "x", v]], []], [[], [["x", v], ["y", v]]], [[["T", "x", v], ["T", "y", v]], []]])
    return [args, kwargs]


class PlannedAbort(BaseException):
    """A failure of the cached function that is NOT an Exception (an abort, a shutdown request raised in it)."""


# what the cached function fails with: also BaseExceptions that are no Exceptions - a failed call is a counted miss and
# caches nothing, whatever it failed with
PLANNED = dict(PLANNED, Abort=PlannedAbort, CancelledError=__import__("asyncio").CancelledError,
               KeyboardInterruptLike=type("PlannedInterrupt", (KeyboardInterrupt,), {}))
PLANNED_NAMES = list(_PLANNED_NAMES) + ["Abort", "CancelledError", "KeyboardInterruptLike", "Abort"]

ENUM_PATTERNS = [[[0], []], [[1], []], [[["f", "1.0"]], []], [[], [["x", 0]]]]


def enum_ops():
    ops = [["call", p] for p in ENUM_PATTERNS] + [["clear"], ["discard", ENUM_PATTERNS[0]], ["fail", ENUM_PATTERNS[1]]]
    return ops


def cases(tier, seed, shard, nshards):
    idx = 0
    alphabet = enum_ops()
    maxlen = 4 if tier == "quick" else 5
    for maxsize in (1, 2):
        for n in range(1, maxlen + 1):
            for hist in itertools.product(alphabet, repeat=n):
                idx += 1
                if idx % nshards == shard:
                    yield {"maxsize": maxsize, "typed": False, "form": "paren", "kind": "function", "ops": list(hist),
                           "enumerated": True, "exc": PLANNED_NAMES[(idx // nshards) % len(PLANNED_NAMES)]}
    for k, (arg, typed, positional) in enumerate(itertools.product(range(len(CONSTRUCT_MAXSIZE)), [False, True, 0, 1, None, "yes"],
                                                                     [False, True])):
        if CONSTRUCT_MAXSIZE[arg] == "<the function itself>" and not isinstance(typed, bool):
            continue  # (functools refuses a non-bool ``typed`` in this form only: argument validation, not compared)
        if k % nshards == shard:
            yield {"kind": "construct", "arg": arg, "typed": typed, "positional": positional}
    for k, (maxsize, typed, form) in enumerate(itertools.product([None, 0, 1, 3], [False, True], ["paren", "bare"])):
        if k % nshards == shard:
            yield {"kind": "attrs", "maxsize": maxsize, "typed": typed, "form": form}
    rng = random.Random(f"C10-{seed}-{shard}")
    for _ in range(max(8, N_RANDOM[tier] // nshards // 40)):
        ops = []
        for _ in range(rng.randint(1, 10)):
            r = rng.random()
            ops.append(["call", rng.randrange(4)] if r < 0.7 else ["call_inner", rng.randrange(4)] if r < 0.8
                       else ["clear_outer"] if r < 0.9 else ["clear_inner"])
        yield {"kind": "stacked", "outer": rng.choice([None, 0, 1, 2, 3, "default"]), "inner": rng.choice([None, 0, 1, 2, 3, "default"]),
               "ops": ops}
    # re-entrant histories: the wrapped function calls its own cache for other arguments (recursion deeper than
    # maxsize, shared sub-problems); still one sequential history, with a synchronous twin under functools
    for _ in range(N_RANDOM[tier] // nshards // 12):
        nn = rng.randint(2, 9)
        children = [sorted(rng.sample(range(k), min(k, rng.choice([0, 1, 1, 2, 2, 3])))) if k else [] for k in range(nn)]
        if rng.random() < 0.3:
            children = [[k - 1] + ([k - 2] if k > 1 else []) if k else [] for k in range(nn)]  # fib-like
        tops = [rng.choice(["clear"]) if rng.random() < 0.12 else rng.randrange(nn) for _ in range(rng.randint(1, 6))]
        yield {"kind": "reentrant", "maxsize": rng.choice([None, 0, 1, 1, 2, 2, 3, 4, 6, "default"]), "children": children,
               "tops": tops, "fail": sorted(rng.sample(range(nn), rng.choice([0, 0, 0, 1]))),
               "warm": sorted(rng.sample(range(nn), rng.choice([0, 0, 1, 2]))),
               # nodes whose FIRST-started run fails and whose later runs succeed (a transient failure); together
               # with a warm-up this is an outer run failing after the inner run for the same argument succeeded
               "fail_once": sorted(rng.sample(range(nn), rng.choice([0, 0, 1, 1]))),
               "clearers": sorted(rng.sample(range(nn), rng.choice([0, 0, 0, 1]))),
               "form": rng.choice(["paren", "bare"])}
    for _ in range(N_RANDOM[tier] // nshards):
        small = rng.random() < 0.6
        pats = [rand_pattern(rng, small) for _ in range(rng.randint(1, 6))]
        if rng.random() < 0.25:
            # look-alikes: a keyword argument of one pattern turns up as a positional ``(name, value)`` TUPLE in another
            # (first or last positional); nothing but the layout of the key keeps the two calls apart
            withkw = [p for p in pats if p[1]]
            if withkw:
                base = rng.choice(withkw)
                j = rng.randrange(len(base[1]))
                item = ["T", base[1][j][0], base[1][j][1]]
                rest = base[1][:j] + base[1][j + 1:]
                pats.append([base[0] + [item], rest] if rng.random() < 0.5 else [[item] + base[0], rest])
                if len(base[1]) > 1 and rng.random() < 0.5:
                    pats.append([base[0], list(reversed(base[1]))])  # ... and the same keywords in another order
                if rng.random() < 0.5:
                    # ... and ALL its keyword items as positional tuples behind a value a caller can pass (None, (), 0,
                    # False, ""): whatever separates positional from keyword arguments in a key is no such value
                    sep = rng.choice([None, None, ["T"], 0, False, "", "a"])
                    pats.append([base[0] + [sep] + [["T", n, v] for n, v in base[1]], []])
        ops = []
        for _ in range(rng.randint(1, 40)):
            r = rng.random()
            p = rng.choice(pats)
            if r < 0.62:
                ops.append(["call", p])
            elif r < 0.70:
                ops.append(["fail", p])
            elif r < 0.75:
                ops.append(["clear"])
            elif r < 0.87:
                ops.append(["discard", p])
            elif r < 0.95:
                ops.append(["info"])
            else:
                ops.append(["params"])
        kind = rng.choice(["function", "function", "method", "classmethod", "staticmethod"])
        variant = None
        if kind == "method":
            ops = [op + [rng.randrange(2)] if op[0] in ("call", "fail", "discard") else op for op in ops]
            if rng.random() < 0.4:
                # (no discards in these: functools, which has none, is their reference)
                variant = rng.choice(["copied", "override", "callobj"])
                ops = [op for op in ops if op[0] != "discard"]
        yield {"maxsize": rng.choice([None, -1, 0, 1, 1, 2, 2, 3, 4, 5, "default"]), "typed": rng.random() < 0.4,
               "form": rng.choice(["paren", "paren", "bare", "empty"]), "kind": kind, "ops": ops,
               "exc": rng.choice(PLANNED_NAMES), "variant": variant}


class LRUModel:
    """OrderedDict + functools._make_key; supports discard."""

    def __init__(self, fn, maxsize, typed):
        self.fn, self.typed = fn, typed
        self.maxsize = maxsize if maxsize is None else max(0, maxsize)
        self.d = OrderedDict()
        self.hits = self.misses = 0

    def key(self, args, kwargs):
        return functools._make_key(args, kwargs, self.typed)

    def __call__(self, /, *args, **kwargs):
        if self.maxsize == 0:
            self.misses += 1
            return self.fn(*args, **kwargs)
        k = self.key(args, kwargs)
        if k in self.d:
            self.hits += 1
            self.d.move_to_end(k)
            return self.d[k]
        self.misses += 1
        v = self.fn(*args, **kwargs)
        if k in self.d:
            pass
        elif self.maxsize is not None and len(self.d) >= self.maxsize:
            self.d.popitem(last=False)
            self.d[k] = v
        else:
            self.d[k] = v
        return v

    def cache_info(self):
        return (self.hits, self.misses, self.maxsize, len(self.d))

    def cache_clear(self):
        self.d.clear()
        self.hits = self.misses = 0

    def cache_discard(self, /, *args, **kwargs):
        if self.maxsize != 0:
            self.d.pop(self.key(args, kwargs), None)


class Backend:
    """The user function behind one of the three caches."""

    def __init__(self):
        self.log = []
        self.fail = False
        self.exc = ValueError

    def body(self, args, kwargs):
        self.log.append((repr(args), repr(sorted(kwargs.items()))))
        if self.fail:
            raise self.exc("planned failure")
        # what the function returns varies: ``None`` and other falsy values are results like any other and must be
        # cached, counted and served exactly like the rest
        n = len(self.log)
        # ... and so is an object that refuses to be inspected (no truth value, no equality, no hash)
        # ... or one that happens to be awaitable itself (a job handle): handed back as it is, not awaited
        return (("r", n), None, 0, ("r", n), False, "", (), OPAQUE, AWAITABLE_RESULT)[n % 9]


from ..tools import Opaque, AwaitablePayload  # noqa: E402

OPAQUE = Opaque("result")
AWAITABLE_RESULT = AwaitablePayload("result")


def build(case):
    """Returns dict name -> (call(inst, args, kwargs), info(), clear(), discard(inst,args,kwargs), params())."""
    maxsize, typed, form, kind = case["maxsize"], case["typed"], case["form"], case["kind"]
    if form in ("bare", "empty") or maxsize == "default":
        eff_maxsize, eff_typed = 128, False
        if form == "paren":
            eff_typed = typed
    else:
        eff_maxsize, eff_typed = maxsize, typed
    ba, bs, bm = Backend(), Backend(), Backend()

    def deco_async(fn):
        if form == "bare":
            return A.lru_cache(fn)
        if form == "empty":
            return A.lru_cache()(fn)
        if maxsize == "default":
            return A.lru_cache(typed=typed)(fn)
        return A.lru_cache(maxsize=maxsize, typed=typed)(fn)

    def deco_sync(fn):
        if form == "bare":
            return functools.lru_cache(fn)
        if form == "empty":
            return functools.lru_cache()(fn)
        if maxsize == "default":
            return functools.lru_cache(typed=typed)(fn)
        return functools.lru_cache(maxsize=maxsize, typed=typed)(fn)

    if kind == "function" or kind == "staticmethod":
        async def af(*args, **kwargs):
            return ba.body(args, kwargs)

        def sf(*args, **kwargs):
            return bs.body(args, kwargs)

        def mf(*args, **kwargs):
            return bm.body(args, kwargs)

        if kind == "staticmethod":
            KA = type("KA", (), {"m": staticmethod(deco_async(af))})
            KS = type("KS", (), {"m": staticmethod(deco_sync(sf))})
            ca, cs = KA().m, KS.m
            # access through the class as well: both must be the same cache
            ca_cls = KA.m
        else:
            ca, cs = deco_async(af), deco_sync(sf)
            ca_cls = ca
        model = LRUModel(mf, eff_maxsize, eff_typed)
        return {"a": (lambda inst, a, k: ca(*a, **k), ca_cls.cache_info, ca.cache_clear,
                      lambda inst, a, k: ca_cls.cache_discard(*a, **k), ca.cache_parameters),
                "s": (lambda inst, a, k: cs(*a, **k), cs.cache_info, cs.cache_clear, None, cs.cache_parameters),
                "m": (lambda inst, a, k: model(*a, **k), model.cache_info, model.cache_clear,
                      lambda inst, a, k: model.cache_discard(*a, **k), None),
                "backends": (ba, bs, bm)}
    if kind == "method" and case.get("variant") in ("copied", "override", "callobj"):
        # "copied": the second instance is a copy.copy() of the first, made after the first one's cached method had
        # been looked up (whatever a look-up may have left in the instance travels with the copy) - it is an object of
        # its own; "override": a subclass overrides the cached method with another cached method that awaits the
        # inherited one through super() - two caches, one attribute name
        import copy
        variant = case["variant"]

        def classes(deco, backend, is_async):
            if variant == "callobj":
                # the cached callable is a callable OBJECT (no ``__get__`` of its own - like a partial, a builtin): the
                # cache stored in the class body still binds, keys on and passes the instance, like functools' does
                if is_async:
                    class Impl:
                        async def __call__(this, self, *args, **kwargs):
                            return backend.body((self.tag,) + args, kwargs)
                else:
                    class Impl:
                        def __call__(this, self, *args, **kwargs):
                            return backend.body((self.tag,) + args, kwargs)
                base_m = Impl()
            elif is_async:
                async def base_m(self, *args, **kwargs):
                    return backend.body((self.tag,) + args, kwargs)
            else:
                def base_m(self, *args, **kwargs):
                    return backend.body((self.tag,) + args, kwargs)
            Base = type("Base", (), {"m": deco(base_m), "__init__": lambda self, tag: setattr(self, "tag", tag),
                                     "__len__": lambda self: 0})
            if variant != "override":
                return Base, Base
            if is_async:
                async def child_m(self, *args, **kwargs):
                    return ("child", await super(Child, self).m(*args, **kwargs))
            else:
                def child_m(self, *args, **kwargs):
                    return ("child", super(Child, self).m(*args, **kwargs))
            Child = type("Child", (Base,), {"m": deco(child_m)})
            return Base, Child

        def instances(K):
            first = K(0)
            first.m  # (looked up once before the copy is made)
            if variant == "copied":
                second = copy.copy(first)
                second.tag = 1
            else:
                second = K(1)
            return [first, second]

        (BA, KA), (BS, KS), (BM, KM) = classes(deco_async, ba, True), classes(deco_sync, bs, False), classes(deco_sync, bm, False)
        ia, is_, im = instances(KA), instances(KS), instances(KM)

        def info_of(K, B):
            return lambda: tuple(K.m.cache_info()) + (tuple(B.m.cache_info()) if B is not K else ())

        def clear_of(K, B):
            def clear():
                K.m.cache_clear()
                if B is not K:
                    B.m.cache_clear()
            return clear

        return {"a": (lambda inst, a, k: ia[inst].m(*a, **k), info_of(KA, BA), clear_of(KA, BA), None,
                      lambda: KA.m.cache_parameters()),
                "s": (lambda inst, a, k: is_[inst].m(*a, **k), info_of(KS, BS), clear_of(KS, BS), None, KS.m.cache_parameters),
                "m": (lambda inst, a, k: im[inst].m(*a, **k), info_of(KM, BM), clear_of(KM, BM), None, None),
                "backends": (ba, bs, bm)}
    if kind == "method":
        async def am(self, *args, **kwargs):
            return ba.body((self.tag,) + args, kwargs)

        def sm(self, *args, **kwargs):
            return bs.body((self.tag,) + args, kwargs)

        def mm(self, *args, **kwargs):
            return bm.body((self.tag,) + args, kwargs)

        # the instances are falsy (an empty container-like object): binding must not depend on their truth value
        KA = type("KA", (), {"m": deco_async(am), "__init__": lambda self, tag: setattr(self, "tag", tag), "__len__": lambda self: 0})
        KS = type("KS", (), {"m": deco_sync(sm), "__init__": lambda self, tag: setattr(self, "tag", tag), "__len__": lambda self: 0})
        ia, is_ = [KA(0), KA(1)], [KS(0), KS(1)]
        model = LRUModel(mm, eff_maxsize, eff_typed)
        return {"a": (lambda inst, a, k: ia[inst].m(*a, **k), lambda: ia[0].m.cache_info(), lambda: ia[1].m.cache_clear(),
                      lambda inst, a, k: ia[inst].m.cache_discard(*a, **k), lambda: KA.m.cache_parameters()),
                "s": (lambda inst, a, k: is_[inst].m(*a, **k), KS.m.cache_info, KS.m.cache_clear, None, KS.m.cache_parameters),
                "m": (lambda inst, a, k: model(is_[inst], *a, **k), model.cache_info, model.cache_clear,
                      lambda inst, a, k: model.cache_discard(is_[inst], *a, **k), None),
                "backends": (ba, bs, bm)}
    if kind == "classmethod":
        async def acm(cls, *args, **kwargs):
            return ba.body(args, kwargs)

        def scm(cls, *args, **kwargs):
            return bs.body(args, kwargs)

        def mcm(cls, *args, **kwargs):
            return bm.body(args, kwargs)

        KA = type("KA", (), {"m": classmethod(deco_async(acm))})
        KS = type("KS", (), {"m": classmethod(deco_sync(scm))})
        model = LRUModel(mcm, eff_maxsize, eff_typed)
        return {"a": (lambda inst, a, k: KA.m(*a, **k), lambda: KA().m.cache_info(), lambda: KA.m.cache_clear(),
                      lambda inst, a, k: KA.m.cache_discard(*a, **k), lambda: KA.m.cache_parameters()),
                "s": (lambda inst, a, k: KS.m(*a, **k), lambda: KS.m.cache_info(), lambda: KS.m.cache_clear(), None,
                      lambda: KS.m.cache_parameters()),
                "m": (lambda inst, a, k: model(KS, *a, **k), model.cache_info, model.cache_clear,
                      lambda inst, a, k: model.cache_discard(KS, *a, **k), None),
                "backends": (ba, bs, bm)}
    raise ValueError(kind)


def _outcome(thunk):
    try:
        return ("ok", thunk())
    except BaseException as exc:  # noqa: BLE001
        return ("raise", type(exc).__name__)


def run_reentrant(case, stats):
    CTX.reset()
    children, fail = case["children"], set(case["fail"])
    loga, logs = [], []

    def deco(mod, fn):
        if case["form"] == "bare" or case["maxsize"] == "default":
            return mod.lru_cache(fn)
        return mod.lru_cache(maxsize=case["maxsize"])(fn)

    warm = set(case.get("warm", ()))
    warmed_a, warmed_s = set(), set()
    fail_once = set(case.get("fail_once", ()))
    started_a, started_s = set(), set()
    clearers = set(case.get("clearers", ()))  # runs for these arguments clear the cache they are being computed for

    async def af(n):
        loga.append(n)
        parts = []
        first = n not in started_a
        started_a.add(n)
        if n in warm and n not in warmed_a:
            # "warm-up": the first run for this argument calls the cache once for the SAME argument - when the outer
            # run finishes, its own key is in the cache already
            warmed_a.add(n)
            parts.append(await ca(n))
        if n in clearers:
            ca.cache_clear()
        for c in children[n]:
            try:
                parts.append(await ca(c))
            except ValueError:
                parts.append("failed")
        if n in fail or (first and n in fail_once):
            raise ValueError(n)
        return (n, tuple(parts), len(loga))

    def sf(n):
        logs.append(n)
        parts = []
        first = n not in started_s
        started_s.add(n)
        if n in warm and n not in warmed_s:
            warmed_s.add(n)
            parts.append(cs(n))
        if n in clearers:
            cs.cache_clear()
        for c in children[n]:
            try:
                parts.append(cs(c))
            except ValueError:
                parts.append("failed")
        if n in fail or (first and n in fail_once):
            raise ValueError(n)
        return (n, tuple(parts), len(logs))

    def keep_first_history():
        """The top-level history under an unbounded cache that keeps the FIRST result stored for a key (the recorded
        finding): results and invocation log, for attributing a deviation to exactly that mechanism."""
        store, log, warmed, out = {}, [], set(), []
        started = set()
        info = {"hits": 0, "misses": 0}

        def call(n):
            if n in store:
                info["hits"] += 1
                return store[n]
            info["misses"] += 1
            log.append(n)
            parts = []
            first = n not in started
            started.add(n)
            if n in warm and n not in warmed:
                warmed.add(n)
                parts.append(call(n))
            if n in clearers:
                store.clear()
                info.update(hits=0, misses=0)
            for c in children[n]:
                try:
                    parts.append(call(c))
                except ValueError:
                    parts.append("failed")
            if n in fail or (first and n in fail_once):
                raise ValueError(n)
            result = (n, tuple(parts), len(log))
            if n not in store:
                store[n] = result
            return result

        for top in case["tops"]:
            if top == "clear":
                store.clear()
                info.update(hits=0, misses=0)
                out.append(None)
            else:
                out.append(_outcome(lambda: call(top)))
        return out, log

    ca, cs = deco(A, af), deco(functools, sf)
    viols = []
    seen_a = []
    head = f"lru_cache maxsize={case['maxsize']} form={case['form']} re-entrant children={children} fail={case['fail']} fail_once={sorted(fail_once)} warm={sorted(warm)} clearers={sorted(clearers)}"
    depth_seen = 0
    for i, top in enumerate(case["tops"]):
        if top == "clear":
            ca.cache_clear(); cs.cache_clear()
            ra = rs = None
        else:
            ra = _outcome(lambda: run_sync(ca(top)))
            rs = _outcome(lambda: cs(top))
        seen_a.append(ra)
        ia, is_ = tuple(ca.cache_info()), tuple(cs.cache_info())
        problem = None
        if ra != rs:
            problem = f"result {ra} vs functools {rs}"
        elif ia != is_:
            problem = f"cache_info {ia} vs functools {is_}"
        elif loga != logs:
            problem = f"invocations {loga} vs functools {logs}"
        if problem:
            key = "lru_cache/reentrant-" + ("result" if problem.startswith("result") else "cache_info" if problem.startswith("cache_info") else "invocations")
            if case["maxsize"] is None and warm and case["form"] != "bare":
                # the recorded finding, and only it: the whole history so far is exactly what an unbounded cache gives
                # that keeps the first result stored for a key while a run for the same key was in progress
                model_out, model_log = keep_first_history()
                if model_out[:len(seen_a)] == seen_a and model_log[:len(loga)] == loga:
                    key = "lru_cache/unbounded-same-key-reentrancy-keeps-first-result"
            viols.append({"key": key, "msg": f"{head}: after top-level op {i} of {case['tops']}: {problem}"[:900]})
            break
    if CTX.foreign:
        viols.append({"key": "lru_cache/suspends-without-user-awaitable", "msg": CTX.foreign[0]})
    info = tuple(ca.cache_info())
    stats["reentrant_histories"] += 1
    deep = isinstance(case["maxsize"], int) and case["maxsize"] > 0 and len(set(loga)) > case["maxsize"]
    if deep:
        stats["reentrant_deeper_than_maxsize"] += 1
    return {"violations": viols, "nontrivial": bool(deep and info[0]), "sig": ("reentrant", str(case))}


def run_attrs(case, stats):
    """The cache object presents the wrapped function like functools.lru_cache does (function and bound method)."""
    CTX.reset()

    def deco(mod, fn):
        if case["form"] == "bare":
            return mod.lru_cache(fn)
        return mod.lru_cache(maxsize=case["maxsize"], typed=case["typed"])(fn)

    async def af(self_or_x: int, y: "str" = "d") -> tuple:
        """the docstring"""
        return (self_or_x, y)

    def sf(self_or_x: int, y: "str" = "d") -> tuple:
        """the docstring"""
        return (self_or_x, y)

    af.marker = sf.marker = "custom attribute"
    ca, cs = deco(A, af), deco(functools, sf)
    KA = type("KA", (), {"m": ca})
    KS = type("KS", (), {"m": cs})
    ia, is_ = KA(), KS()
    viols = []
    head = f"lru_cache maxsize={case['maxsize']} typed={case['typed']} form={case['form']}"
    for where, a_obj, s_obj in (("function", ca, cs), ("bound method", ia.m, is_.m), ("via class", KA.m, KS.m)):
        # (the values of introspection attributes are not part of the property; they are only exercised: looking
        # them up must work wherever it works for functools, which keeps the delegation code under observation)
        for name in ("__name__", "__qualname__", "__doc__", "__module__", "__annotations__", "marker", "__wrapped__"):
            ga = _outcome(lambda: getattr(a_obj, name))
            gs = _outcome(lambda: getattr(s_obj, name))
            if ga[0] != gs[0]:
                viols.append({"key": "lru_cache/attributes", "msg": f"{head}: {name} of the {where}: {ga} vs functools {gs}"})
        if _outcome(lambda: bool(repr(a_obj)))[0] != "ok":
            viols.append({"key": "lru_cache/attributes", "msg": f"{head}: repr of the {where} raised"})
    # a bound cache shares the function's cache and statistics
    r1 = run_sync(ia.m("y1"))
    r2 = run_sync(KA.m(ia, "y1"))
    is_.m("y1")
    KS.m(is_, "y1")
    if r1 != r2 or tuple(ia.m.cache_info()) != tuple(is_.m.cache_info()) or tuple(ca.cache_info()) != tuple(ia.m.cache_info()):
        viols.append({"key": "lru_cache/attributes", "msg": f"{head}: bound and unbound access do not share one cache: "
                                                             f"{r1} {r2} {tuple(ca.cache_info())}"})
    ia.m.cache_clear()
    if tuple(ca.cache_info())[:2] != (0, 0):
        viols.append({"key": "lru_cache/attributes", "msg": f"{head}: cache_clear through the bound method did not clear"})
    stats["attribute_cases"] += 1
    return {"violations": viols, "nontrivial": True, "sig": ("attrs", str(case))}


CONSTRUCT_MAXSIZE = ["x", 1.5, b"", [], (), True, False, -5, -1, 0, 1, 2 ** 40, None, {}, 0.0,
                     "<the function itself>", "<the function itself>"]  # lru_cache(fn, typed) applied directly


def run_construct(case, stats):
    """Which first arguments lru_cache accepts, and what the resulting cache says about itself."""
    CTX.reset()
    viols = []
    v, typed = CONSTRUCT_MAXSIZE[case["arg"]], case["typed"]
    head = f"lru_cache(maxsize={v!r}, typed={typed!r})"

    async def af(x):
        return ("r", x)

    def sf(x):
        return ("r", x)

    direct = v == "<the function itself>"
    seen_a, seen_s = [], []

    async def af(x):  # noqa: F811
        seen_a.append(type(x).__name__)
        return ("r", x, len(seen_a))

    def sf(x):  # noqa: F811
        seen_s.append(type(x).__name__)
        return ("r", x, len(seen_s))

    def build_a():
        if direct:
            c = A.lru_cache(af, typed) if case["positional"] else A.lru_cache(af, typed=typed)
        else:
            c = (A.lru_cache(v, typed) if case["positional"] else A.lru_cache(maxsize=v, typed=typed))(af)
        out = [dict(c.cache_parameters()), tuple(c.cache_info())]
        for x in (1, 2, 1.0, True, 1, 3, 2.0, 1):  # equal values of different types: distinct entries iff typed
            out.append(run_sync(c(x)))
        out.append(tuple(c.cache_info()))
        out.append(list(seen_a))
        return out

    def build_s():
        if direct:
            c = functools.lru_cache(sf, typed) if case["positional"] else functools.lru_cache(sf, typed=typed)
        else:
            c = (functools.lru_cache(v, typed) if case["positional"] else functools.lru_cache(maxsize=v, typed=typed))(sf)
        out = [dict(c.cache_parameters()), tuple(c.cache_info())]
        for x in (1, 2, 1.0, True, 1, 3, 2.0, 1):
            out.append(c(x))
        out.append(tuple(c.cache_info()))
        out.append(list(seen_s))
        return out

    ga, gs = _outcome(build_a), _outcome(build_s)
    if ga[0] != gs[0] or (ga[0] == "ok" and ga[1] != gs[1]) or (ga[0] != "ok" and ga[1:2] != gs[1:2]):
        viols.append({"key": "lru_cache/construction", "msg": f"{head}: {ga} vs functools {gs}"[:700]})
    stats["construction_cases"] += 1
    if gs[0] != "ok":
        stats["construction_refused_by_functools"] += 1
    return {"violations": viols, "nontrivial": True, "sig": ("construct", str(case))}


def run_stacked(case, stats):
    """A cache stacked on a cache (of the same library) of one function: two independent caches - each with its own
    store, size and statistics - exactly like two functools.lru_cache layers."""
    CTX.reset()
    loga, logs = [], []

    async def af(x):
        loga.append(x)
        return (x, len(loga))

    def sf(x):
        logs.append(x)
        return (x, len(logs))

    def layer(mod, fn, size):
        return mod.lru_cache(fn) if size == "default" else mod.lru_cache(maxsize=size)(fn)

    ia, is_ = layer(A, af, case["inner"]), layer(functools, sf, case["inner"])
    oa, os_ = layer(A, ia, case["outer"]), layer(functools, is_, case["outer"])
    viols = []
    head = f"lru_cache(maxsize={case['outer']}) stacked on lru_cache(maxsize={case['inner']})"
    for i, op in enumerate(case["ops"]):
        if op[0] == "call":
            ra, rs = _outcome(lambda: run_sync(oa(op[1]))), _outcome(lambda: os_(op[1]))
        elif op[0] == "call_inner":
            ra, rs = _outcome(lambda: run_sync(ia(op[1]))), _outcome(lambda: is_(op[1]))
        elif op[0] == "clear_outer":
            oa.cache_clear(); os_.cache_clear()
            ra = rs = None
        else:
            ia.cache_clear(); is_.cache_clear()
            ra = rs = None
        state_a = (ra, tuple(oa.cache_info()), tuple(ia.cache_info()), list(loga))
        state_s = (rs, tuple(os_.cache_info()), tuple(is_.cache_info()), list(logs))
        if state_a != state_s:
            viols.append({"key": "lru_cache/stacked-caches",
                          "msg": f"{head}: after op {i} of {case['ops']}: (result, outer cache_info, inner cache_info, "
                                 f"invocations) {state_a} vs functools {state_s}"[:900]})
            break
    if CTX.foreign:
        viols.append({"key": "lru_cache/suspends-without-user-awaitable", "msg": CTX.foreign[0]})
    stats["stacked_cache_histories"] += 1
    return {"violations": viols, "nontrivial": True, "sig": ("stacked", str(case))}


def run_case(case, stats: Counter):
    if case.get("kind") == "stacked":
        return run_stacked(case, stats)
    if case.get("kind") == "reentrant":
        return run_reentrant(case, stats)
    if case.get("kind") == "construct":
        return run_construct(case, stats)
    if case.get("kind") == "attrs":
        return run_attrs(case, stats)
    CTX.reset()
    env = build(case)
    ba, bs, bm = env["backends"]
    for b in (ba, bs, bm):
        b.exc = PLANNED[case.get("exc", "ValueError")]
    has_discard = any(op[0] == "discard" for op in case["ops"])
    viols = []
    hits_seen = False
    special = False
    prev_info = None
    head = f"lru_cache maxsize={case['maxsize']} typed={case['typed']} form={case['form']} kind={case['kind']}"
    for n, op in enumerate(case["ops"]):
        name = op[0]
        inst = op[2] if len(op) > 2 else 0
        if name in ("call", "fail", "discard"):
            args = tuple(decode(v) for v in op[1][0])
            kwargs = {k: decode(v) for k, v in op[1][1]}
        res = {}
        if name in ("call", "fail"):
            for b in (ba, bs, bm):
                b.fail = name == "fail"
            res["a"] = _outcome(lambda: run_sync(env["a"][0](inst, args, kwargs)))
            res["s"] = _outcome(lambda: env["s"][0](inst, args, kwargs))
            res["m"] = _outcome(lambda: env["m"][0](inst, args, kwargs))
            if name == "fail":
                special = True
        elif name == "clear":
            env["a"][2](); env["s"][2](); env["m"][2]()
            special = True
        elif name == "discard":
            res["a"] = _outcome(lambda: env["a"][3](inst, args, kwargs))
            res["m"] = _outcome(lambda: env["m"][3](inst, args, kwargs))
            special = True
            stats["discards"] += 1
        elif name == "params":
            ra, rs = env["a"][4](), env["s"][4]()
            pa, ps = dict(ra), dict(rs)
            if pa != ps:
                viols.append({"key": "lru_cache/cache_parameters", "msg": f"{head}: cache_parameters {pa} vs functools {ps}"})
            # what the query hands out is the caller's to scribble on (a report that adds its own fields, a merge of
            # settings): the cache goes on with the parameters it was created with
            for report in (ra, rs):
                try:
                    report["maxsize"] = 1 if report.get("maxsize") != 1 else 7
                    report["typed"] = not report.get("typed")
                    report["note"] = "scribbled on by the caller"
                except TypeError:
                    pass  # (a read-only mapping would be fine, too)
            stats["parameter_reports_scribbled_on"] += 1
        ia = tuple(env["a"][1]())
        im = tuple(env["m"][1]())
        is_ = tuple(env["s"][1]())
        if prev_info is not None and ia[0] > prev_info[0]:
            hits_seen = True
            stats["hits"] += 1
        if prev_info is not None and name == "call" and ia[1] > prev_info[1] and ia[3] == prev_info[3] and ia[3] and ia[2]:
            stats["evictions"] += 1
            special = True
        prev_info = ia
        ref, ref_name = (im, "model") if has_discard else (is_, "functools")
        if not has_discard and im != is_:
            viols.append({"key": "ORACLE/model-disagrees-with-functools",
                          "msg": f"{head} op {n} {op}: model {im} vs functools {is_} (harness bug)"})
        if not has_discard:
            stats["oracle_selftest"] += 1
        ref_res = res.get("m" if has_discard else "s")
        problem = None
        if res and res["a"] != ref_res:
            problem = f"result {res['a']} vs {ref_name} {ref_res}"
        elif ia != ref:
            problem = f"cache_info {ia} vs {ref_name} {ref}"
        elif ba.log != (bm.log if has_discard else bs.log):
            problem = f"invocation log differs from {ref_name}: {ba.log[-3:]} vs {(bm.log if has_discard else bs.log)[-3:]}"
        if problem:
            key = "lru_cache/" + ("result" if problem.startswith("result") else "cache_info" if problem.startswith("cache_info")
                                  else "invocations")
            if name == "discard":
                key = "lru_cache/cache_discard"
            viols.append({"key": key, "msg": f"{head}: after op {n} {op}: {problem}; history={case['ops'][:n + 1]}"[:900]})
            break
    if CTX.foreign:
        viols.append({"key": "lru_cache/suspends-without-user-awaitable", "msg": CTX.foreign[0]})
    stats["histories"] += 1
    stats["operations"] += len(case["ops"])
    stats[f"kind_{case['kind']}"] += 1
    return {"violations": viols, "nontrivial": hits_seen and special,
            "sig": (case["maxsize"], case["typed"], case["form"], case["kind"], case["ops"])}


def finish(stats, tier):
    for need in ("hits", "evictions", "discards", "oracle_selftest", "kind_method", "kind_classmethod", "kind_staticmethod",
                 "reentrant_histories", "reentrant_deeper_than_maxsize"):
        if not stats.get(need):
            return f"deciding counter {need} is zero"
    return None
