"""C08 — scoped_iter keeps an iterator alive for the block and closes it exactly at exit."""
from __future__ import annotations

import gc
import random
from collections import Counter

import asyncstdlib as A

from ..loop import run_finalizers, CTX, drive, Cancel, Suspend
from ..probes import Item, SrcState, Plan, make_source
from .C07 import TOOLS, TOOL_NAMES, CountIt, _uid, STOP

ID = "C08"
LEVEL = "fault_enumeration"
ANCHORS = ["asynctools.py", "_core.py"]
RULE = ("random block programs inside `async with scoped_iter(underlying)`: sequences of {next on a handle, apply tool T "
        "(27 tools/aggregations that close their inputs) to a handle, take j items, then close / exhaust / abandon "
        "it, open a nested scope over the current handle (depth <= 3) with its own program, raise from the block} ; "
        "exit by fall-through, by an exception raised at EVERY operation position (rotating over Exception, BaseException, "
        "GeneratorExit, KeyboardInterrupt), and by a Cancel as well as a GeneratorExit (coroutine.close() / closing an "
        "enclosing async generator) thrown at EVERY suspension point of the block (underlying suspends in __anext__); underlying in {async generator, class "
        "with aclose, class without aclose, sync iterator}. Oracle: the shared synchronous iterator model of C07 (stdlib tools "
        "on one iter(list)) for what each tool sees, plus lifecycle counts on the underlying probe: aclose count is "
        "0 at every point inside the block and after an inner scope's exit, exactly 1 after the outermost exit "
        "(whatever the exit kind), a handle yields nothing and advances nothing after its scope ended. "
        "one evaluation = one executed block (incl. each exception / cancellation position); non-trivial = block "
        "with >= 2 tool applications or a nested scope or an abnormal exit; additionally nested scopes of depth 2..3 "
        "entered by hand and left in EVERY order (incl. non-LIFO) with re-entrance attempts; distinct = (flavour, program, exit)")
RULE += (' Also: adapter sources (aclose via __getattr__); tools as in C07 including unaligned islice and failing callables.')
RULE += (' Also: the multi-input tools of C07 (handle at every position; ValueError of zip strict compared with the stdlib on the shared iterator).')
RULE += (' Also: a tool polling a stale group of a groupby over the shared handle.')
RULE += (' Also: a tool running a groupby whose key fails once over the shared handle.')
RULE += (' Also: athrow as a signalling channel through scoped and borrowed handles against gen.throw on a shared generator; generator-like class sources without aclose.')
RULE += (' Also: an ended scope context cannot be entered again; the underlying iterator is closed exactly once.')
ASSUMPTIONS = ["iterables without aclose get a neutral context: only the in-block sequence semantics are checked for them",
               "tool laziness is C05's concern; the stdlib twin predicts how many items each tool takes"]
EXHAUSTIVE_SUBSPACES = 'nested scopes of depth 2..3 left in every order x 3 underlying kinds x 0..2 items taken'
EXHAUSTIVE = {"quick": False, "thorough": False}
N_PROG = {"quick": 4000, "thorough": 200000}
FLAVS = ["async_gen", "async_class", "async_class", "async_class_bare", "async_class_bare_full", "sync_iter", "slowclose", "failclose", "async_class_proxy", "async_iterable", "sync_iterable"]
CLASS_CLOSABLE = ("async_class", "async_class_proxy", "async_iterable")


class CloseError(Exception):
    pass


def _special_source(st, flav):
    """Class-based underlying iterators whose own aclose suspends / fails (after doing its work)."""
    from ..probes import AsyncSrc

    class SlowClose(AsyncSrc):
        async def aclose(self):
            self.st.closed += 1
            await Suspend(("aclose", self.st.sid))

    class FailClose(AsyncSrc):
        async def aclose(self):
            self.st.closed += 1
            raise CloseError("underlying aclose failed")

    # an aclose that failed or was cancelled half way did not finish the iterator: it can still be advanced
    st.honour_close = False
    return SlowClose(st) if flav == "slowclose" else FailClose(st)



class BlockError(Exception):
    pass


class BaseBlockError(BaseException):
    pass


RAISE_TYPES = {"Exception": BlockError, "BaseException": BaseBlockError, "GeneratorExit": GeneratorExit,
               "KeyboardInterrupt": KeyboardInterrupt}


def gen_block(rng, depth, maxops=5):
    ops = []
    for _ in range(rng.randint(1, maxops)):
        r = rng.random()
        if r < 0.12:
            ops.append(["pause"])
        elif r < 0.3:
            ops.append(["next"])
        elif r < 0.8 or depth >= 3:
            ops.append(["tool", rng.choice(TOOL_NAMES), rng.randint(0, 3), rng.choice(["close", "close", "exhaust", "abandon"])])
        else:
            ops.append(["scope", gen_block(rng, depth + 1, 3)])
    return ops


def count_ops(block):
    n = 0
    for op in block:
        n += 1
        if op[0] == "scope":
            n += count_ops(op[1])
    return n


def cases(tier, seed, shard, nshards):
    rng = random.Random(f"C08-{seed}-{shard}")
    import itertools as _it
    k = 0
    for flav in ("async_class", "async_gen", "async_class_bare", "async_class_proxy"):
        for taken in (0, 1, 2):
            for how in ("normal", "exception", "cancel"):
                if how == "cancel" and flav == "async_gen":
                    continue  # a generator cancelled inside its own await dies with the cancellation
                k += 1
                if k % nshards == shard:
                    yield {"kind": "borrowed", "flav": flav, "taken": taken, "how": how, "keys": [0, 1, 2, 3, 0, 1]}
    plans = [["next", "signal", "next"], ["next", "next", "signal", "next", "signal", "next"], ["signal", "next"],
             ["next", "signal", "signal", "next", "next"]]
    for via in ("scope", "borrow"):
        for depth in (1, 2, 3):
            for susp in (0, 1):
                for plan in plans:
                    k += 1
                    if k % nshards == shard:
                        yield {"kind": "athrow_signal", "via": via, "depth": depth, "susp": susp, "plan": plan}
    for depth in (2, 3):
        for order in _it.permutations(range(depth)):
            for flav in ("async_class", "async_gen", "slowclose", "async_class_full", "async_class_proxy"):
                for taken in (0, 1, 2):
                    k += 1
                    if k % nshards == shard:
                        yield {"kind": "manual", "depth": depth, "order": list(order), "flav": flav, "taken": taken,
                               "keys": [0, 1, 2, 3, 0, 1]}
    for _ in range(N_PROG[tier] // nshards):
        yield {"block": gen_block(rng, 1), "flav": rng.choice(FLAVS), "keys": [rng.randrange(4) for _ in range(rng.randint(0, 9))],
               "outer_use": rng.random() < 0.3}


def execute(case, raise_at=None, cancel_at=None, susp=0, raise_type="Exception", throw="Cancel"):
    CTX.reset()
    keys = case["keys"]
    st = SrcState(0, [Item(k, (0, i), truth=k != 0) for i, k in enumerate(keys)], Plan(susp), log=False)
    special = case["flav"] in ("slowclose", "failclose")
    under = _special_source(st, case["flav"]) if special else make_source(st, case["flav"])
    closable = case["flav"] in ("async_gen",) + CLASS_CLOSABLE or special
    model = CountIt([Item(k, (0, i), truth=k != 0) for i, k in enumerate(keys)])
    viols = []
    head = f"scoped_iter under={case['flav']} keys={keys} block={case['block']} raise_at={raise_at} cancel_at={cancel_at}"
    info = {"ops": 0, "max_depth": 0, "inner_exits": 0, "tools": 0}
    dead_handles = []
    exact = cancel_at is None  # under cancellation only the lifecycle is judged
    # what is thrown in at a suspension point: a cancellation, or GeneratorExit as coroutine.close() /
    # closing an enclosing async generator would
    cancel_exc = (Cancel() if throw == "Cancel" else GeneratorExit()) if cancel_at is not None else None
    block_exc = RAISE_TYPES[raise_type](raise_at)

    def fail(key, msg):
        viols.append({"key": key, "msg": f"{head}: {msg}"[:1300]})

    def closed_now():
        if case["flav"] == "async_gen":
            return st.finished_gen() and not st.ended
        return st.closed > 0

    async def anext_of(obj):
        try:
            return _uid(await obj.__anext__())
        except StopAsyncIteration:
            return STOP
        except (LookupError, ValueError) as exc:  # the tool's own failure (failing callable, zip(strict=True))
            return ("raised", type(exc).__name__)

    async def run_block(block, source, depth):
        info["max_depth"] = max(info["max_depth"], depth)
        async with A.scoped_iter(source) as h:
            try:
                for op in block:
                    info["ops"] += 1
                    if raise_at is not None and info["ops"] == raise_at:
                        raise block_exc
                    if op[0] == "pause":
                        # the block itself waits for something (only when the scenario suspends at all)
                        if susp:
                            await Suspend("block")
                    elif op[0] == "next":
                        got = await anext_of(h)
                        if exact:
                            want = _uid(next(model, STOP))
                            if got != want:
                                fail("scoped_iter/handle-sequence", f"next on the scoped handle gave {got}, model {want}")
                    elif op[0] == "tool":
                        _, name, j, ending = op
                        info["tools"] += 1
                        tkind, amake, smake = TOOLS[name]
                        if tkind == "agg":
                            try:
                                got = ("ret", _uid(await amake(h)))
                            except (Cancel, BlockError, BaseBlockError, GeneratorExit, KeyboardInterrupt):
                                raise
                            except BaseException as exc:  # noqa: BLE001
                                got = ("raise", type(exc).__name__)
                            if exact:
                                try:
                                    want = ("ret", _uid(smake(model)))
                                except BaseException as exc:  # noqa: BLE001
                                    want = ("raise", type(exc).__name__)
                                if got != want:
                                    fail("scoped_iter/tool-result", f"{op}: {got} vs stdlib on the shared iterator {want}")
                        else:
                            ait = amake(h)
                            sit = smake(model) if exact else None
                            limit = j if ending != "exhaust" else (6 if name == "cycle" else 40)
                            try:
                                for _ in range(limit):
                                    got = await anext_of(ait)
                                    if exact:
                                        try:
                                            want = _uid(next(sit))
                                        except StopIteration:
                                            want = STOP
                                        except (LookupError, ValueError) as exc:
                                            want = ("raised", type(exc).__name__)
                                        if got != want:
                                            fail("scoped_iter/tool-items", f"{op}: tool gave {got}, stdlib on the shared iterator {want}")
                                            break
                                    if got == STOP or (isinstance(got, tuple) and got[:1] == ("raised",)):
                                        break
                            finally:
                                if ending == "abandon":
                                    del ait
                                    gc.collect()
                                    run_finalizers()  # the loop gets around to closing what was abandoned
                                else:
                                    await ait.aclose()
                    elif op[0] == "scope":
                        await run_block(op[1], h, depth + 1)
                        info["inner_exits"] += 1
                        if closable and closed_now():
                            fail("scoped_iter/inner-scope-closed-underlying", "underlying closed when an inner scope ended")
                    if closable and closed_now():
                        fail("scoped_iter/underlying-closed-inside-block", f"after {op}: underlying iterator closed inside the block")
                    if exact and st.pos != model.pos and not viols:
                        fail("scoped_iter/underlying-advanced-differently",
                             f"after {op}: underlying served {st.pos}, shared-iterator model {model.pos}")
            finally:
                dead_handles.append(h)

    outcome = {}

    async def main():
        try:
            await run_block(case["block"], under, 1)
            outcome["exit"] = "normal"
        except BaseException as exc:  # noqa: BLE001
            if exc is block_exc:
                outcome["exit"] = "exception"
            elif exc is cancel_exc:
                outcome["exit"] = "cancel"
            else:
                outcome["exit"] = f"other:{type(exc).__name__}"
        # ---- after the outermost exit -------------------------------------------------------
        if closable:
            if (case["flav"] in CLASS_CLOSABLE or special) and st.closed != 1:
                fail("scoped_iter/close-count", f"underlying aclose called {st.closed} times after the outermost exit "
                                                f"({outcome['exit']})")
            if case["flav"] == "async_gen" and not st.finished_gen():
                fail("scoped_iter/close-count", f"underlying generator still open after the outermost exit ({outcome['exit']})")
            pos = st.pos
            for k, h in enumerate(dead_handles):
                try:
                    got = await anext_of(h)
                except Cancel:
                    # the planned cancellation point was only reached here: the handle suspended inside the
                    # underlying iterator although its scope has ended
                    fail("scoped_iter/handle-alive-after-exit", f"handle of scope #{k} advanced the underlying iterator "
                                                                f"after its scope ended")
                    break
                except RuntimeError as exc:
                    # CPython leaves a generator "running" when GeneratorExit went through its pending
                    # __anext__; such a handle cannot yield anything either
                    if throw == "GeneratorExit" and "already running" in str(exc):
                        got = STOP
                    else:
                        raise
                if got != STOP or st.pos != pos:
                    fail("scoped_iter/handle-alive-after-exit", f"handle of scope #{k} gave {got} after its scope ended")
                    break

    drive(main(), cancel_at=cancel_at, cancel_exc=cancel_exc)
    if CTX.foreign:
        viols.append({"key": "scoped_iter/foreign-suspension", "msg": CTX.foreign[0]})
    info["exit"] = outcome.get("exit")
    info["suspensions"] = CTX.suspensions
    info["owners"] = list(CTX.token_owners)
    return viols, info


def run_manual(case, stats):
    """Nested scopes entered by hand and left in EVERY order (also non-LIFO), plus re-entrance."""
    CTX.reset()
    keys = case["keys"]
    st = SrcState(0, [Item(k, (0, i)) for i, k in enumerate(keys)], Plan(), log=False)
    special = case["flav"] in ("slowclose", "failclose")
    under = _special_source(st, case["flav"]) if special else make_source(st, case["flav"])
    viols = []
    head = f"scoped_iter manual scopes {case}"

    def closed_now():
        if case["flav"] == "async_gen":
            return st.finished_gen() and not st.ended
        return st.closed > 0

    async def main():
        ctxs, handles = [], []
        src = under
        for _ in range(case["depth"]):
            cm = A.scoped_iter(src)
            h = await cm.__aenter__()
            ctxs.append(cm)
            handles.append(h)
            src = h
        # re-entering an active scope must be refused, and must not disturb it
        try:
            await ctxs[0].__aenter__()
            viols.append({"key": "scoped_iter/re-entrance-accepted", "msg": f"{head}: second __aenter__ did not raise"})
        except RuntimeError:
            pass
        got = []
        for _ in range(case["taken"]):
            got.append(await handles[-1].__anext__())
        if [g.uid for g in got] != [(0, i) for i in range(case["taken"])]:
            viols.append({"key": "scoped_iter/handle-sequence", "msg": f"{head}: innermost handle gave {got}"})
        exited = set()
        for level in case["order"]:
            await ctxs[level].__aexit__(None, None, None)
            exited.add(level)
            want_closed = 0 in exited
            if closed_now() != want_closed:
                viols.append({"key": "scoped_iter/close-timing",
                              "msg": f"{head}: after leaving scopes {sorted(exited)} the underlying iterator is "
                                     f"{'closed' if closed_now() else 'open'}; only the outermost scope may close it"})
                return
            # every handle at or below an exited level is dead
            dead_from = min(exited)
            for lv in range(dead_from, case["depth"]):
                if lv in exited or dead_from < lv:
                    pos = st.pos
                    try:
                        item = await handles[lv].__anext__()
                        viols.append({"key": "scoped_iter/handle-alive-after-exit",
                                      "msg": f"{head}: handle of level {lv} gave {item} after scopes {sorted(exited)} ended"})
                        return
                    except StopAsyncIteration:
                        if st.pos != pos:
                            viols.append({"key": "scoped_iter/handle-alive-after-exit", "msg": f"{head}: dead handle advanced the underlying"})
                            return
                    if lv in exited and hasattr(handles[lv], "asend") and not closed_now():
                        # sending through a handle whose scope ended must not reach the iterator beneath either
                        try:
                            item = await handles[lv].asend(None)
                            viols.append({"key": "scoped_iter/handle-alive-after-exit",
                                          "msg": f"{head}: asend on the handle of level {lv} gave {item} after its scope ended"})
                            return
                        except StopAsyncIteration:
                            if st.pos != pos:
                                viols.append({"key": "scoped_iter/handle-alive-after-exit", "msg": f"{head}: asend on a dead handle advanced the underlying"})
                                return
            # handles above every exited level still work while the underlying is open
            if not want_closed:
                for lv in range(0, dead_from):
                    try:
                        item = await handles[lv].__anext__()
                    except StopAsyncIteration:
                        if st.pos < len(keys):
                            viols.append({"key": "scoped_iter/outer-handle-dead-after-inner-exit",
                                          "msg": f"{head}: handle of level {lv} is dead after only inner scopes {sorted(exited)} ended"})
                            return
        # a scope that has ended stays ended: its context object is not entered a second time (a retry loop re-using
        # it) - and if it were, leaving it again must not close the underlying iterator a second time
        if set(case["order"]) == set(range(case["depth"])):
            try:
                await ctxs[0].__aenter__()
            except RuntimeError:
                stats["scope_reuse_after_its_end_refused"] += 1
            else:
                await ctxs[0].__aexit__(None, None, None)
                stats["scope_reuse_after_its_end_accepted"] += 1
        if case["flav"] in CLASS_CLOSABLE + ("slowclose",) and st.closed != 1:
            viols.append({"key": "scoped_iter/close-count", "msg": f"{head}: underlying aclose called {st.closed} times"})

    drive(main())
    if CTX.foreign:
        viols.append({"key": "scoped_iter/foreign-suspension", "msg": CTX.foreign[0]})
    stats["manual_scope_orders"] += 1
    if case["order"] != sorted(case["order"], reverse=True):
        stats["non_lifo_exit_orders"] += 1
    return {"violations": viols, "evals": 1, "sigs": [("manual", str(case))]}


def run_borrowed(case, stats):
    """scoped_iter over an explicitly borrowed handle: the scope ends that handle, never what lies beneath."""
    CTX.reset()
    keys = case["keys"]
    susp = 1 if case["how"] == "cancel" else 0
    st = SrcState(0, [Item(k, (0, i)) for i, k in enumerate(keys)], Plan(susp), log=False)
    under = make_source(st, case["flav"])
    viols = []
    head = f"scoped_iter over a borrowed handle {case}"
    exc = Cancel()

    async def main():
        b1 = A.borrow(under)
        try:
            async with A.scoped_iter(b1) as h:
                for _ in range(case["taken"]):
                    await h.__anext__()
                if case["how"] == "exception":
                    raise BlockError("leave")
                await h.__anext__()
        except (BlockError, Cancel):
            pass
        pos = st.pos
        for name, handle in (("scoped handle", h), ("borrowed handle", b1)):
            try:
                item = await handle.__anext__()
                viols.append({"key": "scoped_iter/borrowed-handle-alive-after-exit",
                              "msg": f"{head}: the {name} gave {item} after the block was left"})
                return
            except StopAsyncIteration:
                pass
        if st.pos != pos:
            viols.append({"key": "scoped_iter/borrowed-handle-alive-after-exit", "msg": f"{head}: a dead handle advanced the underlying"})
        if st.closed or (st.finished_gen() and not st.ended):
            viols.append({"key": "scoped_iter/scope-over-borrowed-closed-the-underlying",
                          "msg": f"{head}: the iterator beneath the borrowed handle was closed"})
        else:
            # the owner still gets the rest
            try:
                nxt = await under.__anext__()
                if nxt.uid != (0, st.pos - 1):
                    viols.append({"key": "scoped_iter/handle-sequence", "msg": f"{head}: owner got {nxt}"})
            except StopAsyncIteration:
                if st.pos < len(keys):
                    viols.append({"key": "scoped_iter/scope-over-borrowed-closed-the-underlying", "msg": f"{head}: owner iterator ended early"})

    n = 0
    if case["how"] == "cancel":
        # cancel at the first suspension after the taken items
        drive(main(), cancel_at=case["taken"] + 1, cancel_exc=exc)
    else:
        drive(main())
    if CTX.foreign:
        viols.append({"key": "scoped_iter/foreign-suspension", "msg": CTX.foreign[0]})
    stats["scopes_over_borrowed_handles"] += 1
    return {"violations": viols, "evals": 1, "sigs": [("borrowed", str(case))]}


class Signal(Exception):
    """Thrown INTO an iterator by its consumer as a message (``athrow`` as a signalling channel); the iterator handles it."""


def run_athrow_signal(case, stats):
    """The consumer talks to the underlying generator through ``handle.athrow(Signal())``; the generator handles the
    signal at its ``yield`` and carries on.  Inside the block the handle is the iterator: the signal reaches it, its answer
    comes back, iteration continues - exactly as ``gen.throw`` on a shared synchronous generator - and after the block the
    owner gets the rest."""
    CTX.reset()
    susp = case["susp"]

    async def agen(log):
        i = 0
        while i < 7:
            try:
                if susp:
                    await Suspend(("src", i), 1)
                yield ("item", i)
                i += 1
            except Signal as sig:
                log.append(("signal-received", i, sig.args))
                yield ("ack", i)

    def sgen(log):
        i = 0
        while i < 7:
            try:
                yield ("item", i)
                i += 1
            except Signal as sig:
                log.append(("signal-received", i, sig.args))
                yield ("ack", i)

    plan = case["plan"]  # e.g. ["next", "next", "signal", "next", "signal", "next"]
    log_s, out_s = [], []
    g = sgen(log_s)
    for n, op in enumerate(plan):
        try:
            out_s.append(next(g) if op == "next" else g.throw(Signal(n)))
        except StopIteration:
            out_s.append("STOP")
        except Signal:
            out_s.append("signal-came-back")  # (a signal the generator did not handle: it ends the generator)
    rest_s = list(g)
    log_a, out_a, rest_a = [], [], []
    under = agen(log_a)

    async def use(handle):
        for n, op in enumerate(plan):
            try:
                out_a.append(await (handle.__anext__() if op == "next" else handle.athrow(Signal(n))))
            except StopAsyncIteration:
                out_a.append("STOP")
            except Signal:
                out_a.append("signal-came-back")

    async def main():
        if case["via"] == "borrow":
            handle = A.borrow(under)
            if case["depth"] > 1:
                handle = A.borrow(handle)
            await use(handle)
            await handle.aclose()
        else:
            async def nest(it, depth):
                async with A.scoped_iter(it) as h:
                    if depth > 1:
                        await nest(h, depth - 1)
                    else:
                        await use(h)
            # (a scope over the raw generator closes it at exit: the owner lends a borrowed handle)
            await nest(A.borrow(under), case["depth"])
        async for x in under:
            rest_a.append(x)

    viols = []
    try:
        drive(main())
    except BaseException as exc:  # noqa: BLE001
        viols.append({"key": "scoped_iter/athrow-signal-raised", "msg": f"athrow signalling {case}: {exc!r}"})
    stats["athrow_signal_runs"] += 1
    if not viols and (out_a, log_a, rest_a) != (out_s, log_s, rest_s):
        viols.append({"key": "scoped_iter/athrow-does-not-reach-the-iterator",
                      "msg": f"athrow signalling {case}: handle gave {out_a}, generator saw {log_a}, owner then got {rest_a}; a "
                             f"shared synchronous generator gives {out_s}, sees {log_s}, leaves {rest_s}"[:900]})
    if CTX.foreign:
        viols.append({"key": "scoped_iter/foreign-suspension", "msg": CTX.foreign[0]})
    return {"violations": viols, "evals": 1, "sigs": [("athrow-signal", str(case))]}


def run_case(case, stats: Counter):
    if case.get("kind") == "athrow_signal":
        return run_athrow_signal(case, stats)
    if case.get("kind") == "borrowed":
        return run_borrowed(case, stats)
    if case.get("kind") == "manual":
        return run_manual(case, stats)
    viols_all = []
    sigs = []
    evals = 0
    nops = count_ops(case["block"])

    def one(**kw):
        nonlocal evals
        v, info = execute(case, **kw)
        evals += 1
        stats["blocks_executed"] += 1
        stats[f"exit_{info['exit']}"] += 1
        if kw.get("raise_type"):
            stats[f"left_by_{kw['raise_type']}"] += 1
        if kw.get("throw"):
            stats["left_by_thrown_GeneratorExit"] += 1
        stats["tool_applications"] += info["tools"]
        stats["inner_scope_exits"] += info["inner_exits"]
        stats[f"depth_{info['max_depth']}"] += 1
        if info["tools"] >= 2 or info["max_depth"] >= 2 or info["exit"] != "normal":
            sigs.append((case["flav"], str(case["keys"]), str(case["block"]), str(sorted(kw.items()))))
        for x in v:
            if all(x["key"] != y["key"] for y in viols_all):
                viols_all.append(x)
        return info

    one()
    kinds = list(RAISE_TYPES)
    for k in range(1, nops + 1):
        # the way the block is left rotates over Exception / BaseException / GeneratorExit / KeyboardInterrupt
        one(raise_at=k, raise_type=kinds[(k + len(case["keys"])) % len(kinds)])
    if case["flav"] in ("async_class", "async_gen", "async_class_bare", "slowclose", "failclose", "async_class_proxy"):
        info = one(susp=1)
        for i in range(1, info["suspensions"] + 1):
            one(susp=1, cancel_at=i)
            if info["owners"][i - 1] == "block":
                # coroutine.close() while the block itself is waiting.  (Not at suspensions inside a pending
                # __anext__ of an async generator: CPython 3.12.1 then leaves that generator "running" and
                # any later aclose() of it fails - an interpreter defect, not the library's.)
                one(susp=1, cancel_at=i, throw="GeneratorExit")
    return {"violations": viols_all, "evals": evals, "sigs": sigs}


def finish(stats, tier):
    for need in ("exit_normal", "exit_exception", "exit_cancel", "inner_scope_exits", "depth_2", "depth_3", "tool_applications",
                 "left_by_GeneratorExit", "left_by_BaseException", "left_by_thrown_GeneratorExit", "non_lifo_exit_orders", "scopes_over_borrowed_handles"):
        if not stats.get(need):
            return f"deciding counter {need} is zero"
    return None
