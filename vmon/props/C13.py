"""C13 — contextmanager equals asynccontextmanager for every generator and body outcome."""
from __future__ import annotations

import contextlib
import itertools
from collections import Counter

import asyncstdlib as A

from ..loop import CTX, drive, Suspend

ID = "C13"
LEVEL = "exploration"
ANCHORS = ["contextlib.py"]
RULE = ("complete grid of generator programs {raise before yield, no yield, yield} x {no handler, finally, swallow, "
        "re-raise, raise new, raise new from None, raise same type, return, yield again, raise StopAsyncIteration, "
        "raise StopIteration} x {stop, yield again, raise afterwards} x block outcome {normal, ValueError, "
        "BaseException, StopIteration, StopAsyncIteration, RuntimeError, GeneratorExit, KeyboardInterrupt, custom} "
        "= 1620 programs (20 handler kinds incl. RuntimeError/BaseException raised with and without cause, raising finally blocks), each without and with suspensions inside the generator and with constructor arguments; "
        "value bound by async with, the generator's own event log and the final outcome (suppressed / same object "
        "propagates / type of a different exception) are compared with contextlib.asynccontextmanager on a fresh "
        "instance of the same program; for GeneratorExit the documented deviation is the reference (generator "
        "closed; outcome = what aclose() raises, else the same GeneratorExit object). non-trivial = the generator "
        "yielded and the exit path interacted with it; distinct = program x outcome x suspension variant")
RULE += (' Also: decorator form (the manager decorating an async function whose body has the outcome), against contextlib.asynccontextmanager used as a decorator.')
RULE += (' Also: one manager object used as a decorator (twice) and then entered directly.')
RULE += (' Also: generator functions called with keyword arguments named func/self/args/kwds/gen/cls.')
RULE += (' Also: generator handlers / clean-ups raising AttributeError, TypeError, KeyError, LookupError, AssertionError, OSError.')
RULE += (' Also: block exceptions whose instances are falsy (__len__ == 0 / __bool__ False).')
RULE += (' Also: decorated function called with arguments it does not take (the TypeError is raised inside the context).')
RULE += (' Also: the whole use made from inside an except block of the caller.')
RULE += (' Also: Stop(Async)Iteration / RuntimeError subclasses with value equality; handlers raising a new but equal instance.')
RULE += (' Also: clean-up after the yield raising StopAsyncIteration / RuntimeError; exceptions with lenient equality.')
RULE += (" Also: clean-up failing with a RuntimeError whose cause is another RuntimeError raised from the block's exception.")
RULE += (" Also: proper subclasses of RuntimeError raised from the block's exception.")
RULE += (' Also: blocks that finish the manager\'s generator themselves (manager.gen.aclose()) before they leave, normally or by an exception.')
RULE += (' Also: falsy Stop(Async)Iteration subclasses leaving the block.')
RULE += (' Also: managers whose own single argument is a coroutine function (a hook).')
RULE += (" Also: decorated callables that are plain wrappers handing back the body's coroutine.")
RULE += (' Also: set-up failures that are a RuntimeError raised from a StopAsyncIteration, or a leaked StopAsyncIteration (message and cause compared).')
RULE += (' Also: generators that raise the cause of the exception they were given.')
RULE += (' Also: generators answering with an exception group that contains what was thrown in.')
ASSUMPTIONS = ["contextlib.asynccontextmanager of the running interpreter is the reference",
               "__cause__/__context__ chains and messages are not compared"]
EXHAUSTIVE = {"quick": True, "thorough": True}
MAX_SHARDS = 4


class New(Exception):
    pass


# (set-up failures: an exception of the generator's own; a RuntimeError it raises explicitly FROM a StopAsyncIteration -
# an empty source reported in its own words; a StopAsyncIteration that leaks out of the set-up and is promoted)
PRE = ["raise", "noyield", "yield", "raise_runtime_from_sai", "leak_sai"]
VALUE = {0: "V", 1: None, 2: 0}  # what the generator yields to ``as``: also None / falsy
HANDLER = ["none", "finally", "swallow", "reraise", "raise_new", "raise_new_from_none", "raise_same_type", "return",
           "raise_copy", "raise_copy_from_none", "raise_runtime_chain", "raise_runtime_sub_from_exc", "raise_cause",
           "raise_group_of_exc", "raise_group_of_two",
           "raise_notimplemented_from_exc",
           "yield_again", "raise_sai", "raise_si",
           # the type and chaining of what the generator raises matters to the classification in __aexit__
           "raise_new_from_exc", "raise_runtime", "raise_runtime_from_none", "raise_runtime_from_exc",
           "raise_same_object", "raise_base", "finally_raise_new", "finally_raise_runtime", "finally_return",
           # a second yield whose value is None (a bare ``yield``) or falsy
           "yield_again_none", "yield_again_false",
           # what the generator's handler / clean-up raises may be of any standard type - also one that the exit
           # protocol's own code could raise (AttributeError, TypeError, KeyError, ...): it is the generator's
           "raise_std:AttributeError", "raise_std:TypeError", "raise_std:KeyError", "raise_std:LookupError",
           "raise_std:AssertionError", "raise_std:OSError",
           "finally_raise_std:AttributeError", "finally_raise_std:TypeError", "finally_raise_std:KeyError"]
STD_RAISED = {"AttributeError": AttributeError, "TypeError": TypeError, "KeyError": KeyError, "LookupError": LookupError,
              "AssertionError": AssertionError, "OSError": OSError}
AFTER = ["stop", "yield_again", "raise", "yield_again_none", "raise_sai", "raise_sai_from_none", "raise_runtime"]
class RuntimeSub(RuntimeError):
    pass


class StopAsyncSub(StopAsyncIteration):
    pass


class StopSub(StopIteration):
    pass


class CancelLike(BaseException):
    """What event loops throw to cancel: a BaseException that is not an Exception."""


class GeneratorExitSub(GeneratorExit):
    """Only GeneratorExit itself is documented to close the generator; a subclass is thrown in like any exception."""


class EqStopAsync(StopAsyncIteration):
    """A StopAsyncIteration subclass with VALUE equality (a result-carrying "done" signal compared by its payload)."""

    def __eq__(self, other):
        return type(other) is type(self) and other.args == self.args

    def __hash__(self):
        return hash(self.args)


class EqStop(StopIteration):
    def __eq__(self, other):
        return isinstance(other, StopIteration)

    __hash__ = None


class EqRuntime(RuntimeError):
    def __eq__(self, other):
        return isinstance(other, RuntimeError)

    __hash__ = None


class LenientEq(Exception):
    """Equal to anything: which exception is which is a matter of identity."""
    __hash__ = None

    def __eq__(self, other):
        return True

    def __ne__(self, other):
        return False


class FalsyError(Exception):
    """An exception INSTANCE that is falsy (an error that is also a sized collection of its sub-errors, empty here)."""

    def __len__(self):
        return 0


class FalsyRuntime(RuntimeError):
    def __bool__(self):
        return False


class FalsyStopAsync(StopAsyncIteration):
    """An end-of-stream signal that is also an (empty) batch: an instance that tests false."""

    def __len__(self):
        return 0


class FalsyStop(StopIteration):
    def __bool__(self):
        return False


OUTCOME = {"normal": None, "FalsyError": FalsyError, "FalsyRuntime": FalsyRuntime, "FalsyStopAsync": FalsyStopAsync, "FalsyStop": FalsyStop,
           "EqStopAsync": EqStopAsync, "EqStop": EqStop, "EqRuntime": EqRuntime, "LenientEq": LenientEq, "ValueError": ValueError, "Exception": Exception, "GeneratorExitSub": GeneratorExitSub,
           "BaseException": BaseException, "StopIteration": StopIteration,
           "StopAsyncIteration": StopAsyncIteration, "RuntimeError": RuntimeError, "GeneratorExit": GeneratorExit,
           "KeyboardInterrupt": KeyboardInterrupt, "New": New,
           # subclasses of the exception types the exit protocol treats specially, and pre-chained exceptions
           "RuntimeSub": RuntimeSub, "StopAsyncSub": StopAsyncSub, "StopSub": StopSub, "CancelLike": CancelLike,
           "RuntimeError_caused_by_StopIteration": "chained-si", "RuntimeError_caused_by_StopAsyncIteration": "chained-sai",
           "New_caused_by_RuntimeError": "chained-rt"}


def make_exc(outcome):
    kind = OUTCOME[outcome]
    if kind is None:
        return None
    if isinstance(kind, str):
        # exceptions that already carry a cause, as if an inner layer had converted them
        try:
            try:
                raise {"chained-si": StopIteration, "chained-sai": StopAsyncIteration, "chained-rt": RuntimeError}[kind]("inner")
            except BaseException as inner:
                raise (New if kind == "chained-rt" else RuntimeError)("body") from inner
        except BaseException as exc:  # noqa: BLE001
            return exc.with_traceback(None)
    return kind("body")


# the generator function's own keyword parameters may be named like anything, also like the parameters of the
# machinery that carries them to it
KW = {"func": "F", "self": "S", "args": "A", "kwds": "K", "gen": "G", "cls": "C"}


def cases(tier, seed, shard, nshards):
    idx = 0
    for pre, handler, after, outcome in itertools.product(PRE, HANDLER, AFTER, OUTCOME):
        for susp in (0, 1):
            for mode in ("with", "reuse", "decorator", "decorate_then_enter", "decorator_badcall", "block_closes_gen"):
                if mode == "block_closes_gen" and (outcome == "GeneratorExit" or pre != "yield" or
                                                   handler.startswith("yield_again") or after.startswith("yield_again")):
                    # (GeneratorExit: the documented deviation, modelled separately; a generator that answers its own
                    # closing with another yield broke the protocol - what follows is not compared, as for "reuse")
                    continue
                if mode == "decorator_badcall" and outcome != "normal":
                    continue  # (the call itself fails: the body's outcome never comes into play)
                if mode in ("decorator", "decorate_then_enter", "enter_then_decorate") and outcome == "GeneratorExit":
                    continue  # the documented deviation is modelled for the with-statement form only
                if mode in ("decorate_then_enter", "enter_then_decorate") and \
                        (handler.startswith("yield_again") or after.startswith("yield_again")):
                    continue  # (as for "reuse": what follows a generator that broke the protocol is not compared)
                if mode == "reuse" and (handler.startswith("yield_again") or after.startswith("yield_again")):
                    # a generator that yields twice is left suspended by asyncstdlib and closed by contextlib (3.12);
                    # what a further use of such a broken manager does is outside the property
                    continue
                idx += 1
                if idx % nshards == shard:
                    yield {"pre": pre, "handler": handler, "after": after, "outcome": outcome, "susp": susp, "mode": mode,
                           "ambient": idx % 3 == 0 and outcome != "GeneratorExit",
                           "plain_wrapper": idx % 3 == 1 and mode in ("decorator", "decorator_badcall"),
                           "hook_arg": idx % 4 == 1 and outcome != "GeneratorExit" and mode in ("with", "reuse", "block_closes_gen")}


async def _hook(*args):
    return "the hook ran"


def make(pre, handler, after, log, susp):
    async def gen(*args, **kwargs):
        log.append(("start", args, tuple(sorted(kwargs.items()))))
        if susp:
            await Suspend("gen-pre", susp)
        if pre == "raise":
            raise New("pre")
        if pre == "raise_runtime_from_sai":
            try:
                raise StopAsyncIteration("the source is empty")
            except StopAsyncIteration as stop:
                raise RuntimeError("nothing to manage: the source is empty") from stop
        if pre == "leak_sai":
            raise StopAsyncIteration("leaked from the set-up")
        if pre == "noyield":
            return
        if handler == "none":
            yield VALUE[susp]
            log.append("resumed")
        elif handler == "finally":
            try:
                yield VALUE[susp]
                log.append("resumed")
            finally:
                log.append("finally")
        elif handler in ("finally_raise_new", "finally_raise_runtime") or handler.startswith("finally_raise_std:"):
            try:
                yield VALUE[susp]
                log.append("resumed")
            finally:
                log.append("finally")
                if handler.startswith("finally_raise_std:"):
                    raise STD_RAISED[handler.split(":")[1]]("cleanup failed")
                raise (New if handler == "finally_raise_new" else RuntimeError)("cleanup failed")
        elif handler == "finally_return":
            try:
                yield VALUE[susp]
                log.append("resumed")
            finally:
                log.append("finally")
                return  # noqa: B012 - swallows whatever was thrown in
        else:
            try:
                yield VALUE[susp]
                log.append("resumed")
            except BaseException as e:
                log.append(("caught", type(e).__name__))
                if susp and not isinstance(e, GeneratorExit):
                    await Suspend("gen-handler", susp)
                if handler == "swallow":
                    pass
                elif handler == "reraise":
                    raise
                elif handler.startswith("raise_std:"):
                    raise STD_RAISED[handler.split(":")[1]]("h")
                elif handler == "raise_new":
                    raise New("h")
                elif handler == "raise_new_from_none":
                    raise New("h") from None
                elif handler == "raise_same_type":
                    raise type(e)("again")
                elif handler == "raise_cause":
                    # the generator unwraps what it is given: it raises the CAUSE of the block's exception (the block's
                    # exception itself if it has none) - for a block that failed with "RuntimeError from StopIteration" that
                    # is a Stop(Async)Iteration escaping the generator, which the generator protocol promotes again
                    raise (e.__cause__ or e)
                elif handler == "raise_group_of_exc":
                    # the clean-up reports through an exception GROUP (a task group / cancel scope held open by the
                    # generator) whose only member is the block's exception: still the generator's own exception
                    raise BaseExceptionGroup("clean-up", [e])
                elif handler == "raise_group_of_two":
                    raise BaseExceptionGroup("clean-up", [e, New("h")])
                elif handler == "raise_runtime_sub_from_exc":
                    # a proper SUBCLASS of RuntimeError raised from the block's exception (NotImplementedError,
                    # RecursionError, a user class): classified like any RuntimeError
                    raise RuntimeSub("generator") from e
                elif handler == "raise_notimplemented_from_exc":
                    raise NotImplementedError("generator") from e
                elif handler == "raise_runtime_chain":
                    # the clean-up fails with a RuntimeError of its own whose cause is ANOTHER RuntimeError that was
                    # raised from the block's exception: two layers down is not "the promotion of the block's exception"
                    try:
                        raise RuntimeError("inner layer") from e
                    except RuntimeError as inner:
                        raise RuntimeError("clean-up failed") from inner
                elif handler == "raise_copy":
                    # a NEW instance with the same arguments: for exception types with value equality it compares equal
                    # to the block's exception - and is still another exception, raised by the generator
                    raise type(e)(*e.args)
                elif handler == "raise_copy_from_none":
                    raise type(e)(*e.args) from None
                elif handler == "return":
                    return
                elif handler == "yield_again":
                    yield "W"
                    log.append("resumed2")
                elif handler == "yield_again_none":
                    yield
                    log.append("resumed2")
                elif handler == "yield_again_false":
                    yield 0
                    log.append("resumed2")
                elif handler == "raise_sai":
                    raise StopAsyncIteration("g")
                elif handler == "raise_si":
                    raise StopIteration("g")
                elif handler == "raise_new_from_exc":
                    raise New("h") from e
                elif handler == "raise_runtime":
                    raise RuntimeError("h")
                elif handler == "raise_runtime_from_none":
                    raise RuntimeError("h") from None
                elif handler == "raise_runtime_from_exc":
                    raise RuntimeError("h") from e
                elif handler == "raise_same_object":
                    raise e
                elif handler == "raise_base":
                    raise BaseException("h")
        if susp:
            await Suspend("gen-post", susp)
        if after == "yield_again":
            yield "X"
            log.append("resumed3")
        elif after == "yield_again_none":
            yield
            log.append("resumed3")
        elif after == "raise":
            raise New("after")
        elif after == "raise_sai":
            # the clean-up after the yield lets a StopAsyncIteration escape (an exhausted iterator it polled): the
            # generator protocol turns it into a RuntimeError - a failure of the clean-up, not a clean stop
            raise StopAsyncIteration("after")
        elif after == "raise_sai_from_none":
            raise StopAsyncIteration("after") from None
        elif after == "raise_runtime":
            raise RuntimeError("after")
        log.append("end")

    return gen


def trial(factory, case):
    CTX.reset()
    log = []
    cm = factory(make(case["pre"], case["handler"], case["after"], log, case["susp"]))
    exc = make_exc(case["outcome"])

    async def decorated_form():
        # the manager as a decorator: every call of the function runs inside a context of its own, the call's
        # result is handed through, and a failure that the generator swallows makes the call return None
        async def fn_impl(a, b=None):
            log.append(("entered", a, b))
            if exc is not None:
                raise exc
            return "body-result"

        if case.get("plain_wrapper"):
            # the decorated callable is a plain (not ``async def``) function handing back the coroutine of the body - a
            # lambda, a wrapper: awaited INSIDE the context all the same
            fn = cm(1, k=2, **KW)(lambda a, b=None: fn_impl(a, b))
        else:
            fn = cm(1, k=2, **KW)(fn_impl)

        if case.get("mode") == "decorator_badcall":
            # the decorated function is called with arguments it does not take: that call happens INSIDE the context
            # (``async with cm: return await func(*args)``) - the generator is entered and sees the TypeError
            log.append(("returned", await fn(5, b=6, c=7)))
        log.append(("returned", await fn(5, b=6)))

    async def mixed_form(decorate_first):
        # ONE manager object used both ways: first as a decorator (each call gets a context of its own), then
        # directly in a with statement (which uses the object's own generator, untouched by the calls)
        manager = cm(1, k=2, **KW)

        @manager
        async def fn(a, b=None):
            log.append(("entered", a, b))
            if exc is not None:
                raise exc
            return "body-result"

        async def call():
            try:
                log.append(("returned", await fn(5, b=6)))
            except BaseException as err:  # noqa: BLE001
                log.append(("call-raised", type(err).__name__, err is exc))

        # (decorated calls AFTER the direct use are not compared: contextlib drops the manager's arguments when it
        # is entered, so its decorated function then fails with an AttributeError - an incidental behaviour)
        await call()
        await call()
        async with manager as v:
            log.append(("entered-directly", v))
        log.append("after-with")

    async def body():
        if case.get("mode") in ("decorator", "decorator_badcall"):
            return await decorated_form()
        if case.get("mode") in ("decorate_then_enter", "enter_then_decorate"):
            return await mixed_form(case["mode"] == "decorate_then_enter")
        # (the manager's own arguments are whatever the generator function takes - also a single coroutine function,
        # e.g. a notification hook: an argument like any other, not something to decorate)
        manager = cm(_hook) if case.get("hook_arg") else cm(1, k=2, **KW)
        try:
            async with manager as v:
                log.append(("entered", v))
                if case.get("mode") == "block_closes_gen":
                    # the block finishes the manager's generator ITSELF (an impatient shutdown path reaching for
                    # ``manager.gen``) and only then leaves: the exit finds a generator that is already done
                    try:
                        await manager.gen.aclose()
                    except RuntimeError as err:
                        log.append(("gen-aclose-raised", str(err)))
                if exc is not None:
                    raise exc
            log.append("after-with")
        except BaseException as first:  # noqa: BLE001
            if case.get("mode") != "reuse":
                raise
            log.append(("first-use-raised", type(first).__name__, first is exc))
        if case.get("mode") == "reuse":
            # a generator based manager is single use: entering the finished manager again must fail the same way
            async with manager as v:
                log.append(("entered-again", v))
            log.append("after-second-with")

    async def while_handling():
        # the whole use sits INSIDE an except block of its caller: that unrelated exception is none of its business
        try:
            raise LookupError("an unrelated failure being handled by the caller")
        except LookupError:
            return await body()

    try:
        drive(while_handling() if case.get("ambient") else body())
        res = ("ok",)
    except BaseException as e:  # noqa: BLE001
        res = ("raise", type(e).__name__, e is exc)
        if case["pre"] in ("raise_runtime_from_sai", "leak_sai"):
            # (a set-up failure comes out as it is: its message and its cause are the generator's / the interpreter's)
            res += (str(e), type(e.__cause__).__name__)
    if case.get("mode") == "reuse" and res[0] == "raise" and not res[2]:
        # HOW a second use fails is not specified (contextlib happens to raise AttributeError from a deleted
        # attribute): only that it fails without entering the block or restarting the generator is compared
        res = ("raise", "<second use refused>", False)
    return res, log, list(CTX.foreign)


def reference_generatorexit(case):
    """Documented deviation: the generator is closed, never thrown into."""
    CTX.reset()
    log = []
    genf = make(case["pre"], case["handler"], case["after"], log, case["susp"])
    exc = GeneratorExit("body")

    async def first():
        try:
            v = await gen.__anext__()
        except StopAsyncIteration:
            raise RuntimeError("generator did not yield to __aenter__") from None
        log.append(("entered", v))
        await gen.aclose()
        raise exc

    gen = genf(1, k=2, **KW)

    async def body():
        if case.get("mode") != "reuse":
            return await first()
        try:
            await first()
        except BaseException as e:  # noqa: BLE001
            log.append(("first-use-raised", type(e).__name__, e is exc))
        try:
            v = await gen.__anext__()
        except StopAsyncIteration:
            raise RuntimeError("generator did not yield to __aenter__") from None
        log.append(("entered-again", v))
        try:
            await gen.__anext__()
        except StopAsyncIteration:
            pass
        else:
            raise RuntimeError("generator did not stop after __aexit__")
        log.append("after-second-with")

    try:
        drive(body())
        res = ("ok",)
    except BaseException as e:  # noqa: BLE001
        res = ("raise", type(e).__name__, e is exc)
        if case["pre"] in ("raise_runtime_from_sai", "leak_sai"):
            res += (str(e), type(e.__cause__).__name__)
    if case.get("mode") == "reuse" and res[0] == "raise" and not res[2]:
        res = ("raise", "<second use refused>", False)
    return res, log, []


def run_case(case, stats: Counter):
    if case["outcome"] == "GeneratorExit":
        ref = reference_generatorexit(case)
        stats["generatorexit_deviation_cases"] += 1
    else:
        ref = trial(contextlib.asynccontextmanager, case)
    got = trial(A.contextmanager, case)
    stats["programs"] += 1
    stats[f"outcome_{ref[0][0]}"] += 1
    if ref[0] == ("ok",) and case["outcome"] != "normal":
        stats["suppressed"] += 1
    if ref[0][0] == "raise" and ref[0][1] == "RuntimeError" and case["outcome"] != "RuntimeError":
        stats["protocol_runtime_errors"] += 1
    viols = []
    if got[2]:
        viols.append({"key": "contextmanager/foreign-suspension", "msg": got[2][0]})
    if ref[0] != got[0] or ref[1] != got[1]:
        what = "outcome" if ref[0] != got[0] else "generator-interactions"
        key = f"contextmanager/{what}"
        if case["outcome"] == "GeneratorExit":
            key += "-generatorexit"
        viols.append({"key": key,
                      "msg": f"program {case}: reference {ref[0]} log={ref[1]} vs asyncstdlib {got[0]} log={got[1]}"[:900]})
    nontrivial = case["pre"] == "yield" and (case["outcome"] != "normal" or case["after"] != "stop")
    return {"violations": viols, "nontrivial": nontrivial, "sig": tuple(sorted(case.items()))}


def finish(stats, tier):
    for need in ("suppressed", "protocol_runtime_errors", "generatorexit_deviation_cases", "outcome_ok", "outcome_raise"):
        if not stats.get(need):
            return f"deciding counter {need} is zero"
    return None
