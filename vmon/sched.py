"""Schedule exploration helpers on top of loop.Driver."""
from __future__ import annotations

import random
from typing import Any, Callable, Iterator, List, Tuple

from .loop import DFS, random_strategy, pct_strategy, rr_strategy, replay_strategy


def explore(execute: Callable[[Callable[[List[int]], int]], Any], mode: str, seed: int, runs: int,
            ntasks: int = 4) -> Iterator[Tuple[Any, str, bool]]:
    """Yield (result, mode, exhaustive_so_far) for each execution.

    ``execute(choose)`` builds the scenario from scratch and runs it under ``choose``.
    mode: "dfs" (systematic, up to ``runs`` executions), "random", "pct", "rr".
    """
    if mode == "dfs":
        dfs = DFS(runs)
        for res, _taken in dfs.explore(execute):
            yield res, "dfs", False
        yield None, "dfs-done", dfs.exhaustive
        return
    rng = random.Random(seed)
    for i in range(runs):
        if mode == "rr":
            yield execute(rr_strategy()), "rr", False
            return
        if mode == "random":
            yield execute(random_strategy(random.Random(rng.randrange(1 << 30)))), "random", False
        else:
            yield execute(pct_strategy(random.Random(rng.randrange(1 << 30)), ntasks, rng.choice([1, 2, 3]))), "pct", False


def replay(execute, trace):
    return execute(replay_strategy(list(trace)))
