"""Shards a check over subprocess workers, merges results, decides the verdict,
applies known findings and writes the evidence file."""
from __future__ import annotations

import hashlib
import importlib
import json
import os
import subprocess
import sys
import time
import traceback
from collections import Counter
from typing import Any, Dict, List

VERIF = os.path.dirname(os.path.dirname(os.path.abspath(__file__)))
EVIDENCE_DIR = os.path.join(VERIF, "evidence")
REPLAY_DIR = os.path.join(EVIDENCE_DIR, "replays")
WORK_DIR = os.path.join(EVIDENCE_DIR, ".work")
KNOWN_FILE = os.path.join(VERIF, "known_findings.json")

NWORKERS = int(os.environ.get("VERIF_WORKERS", "0")) or min(16, os.cpu_count() or 4)
WATCHDOG = {"quick": 600, "thorough": 3600}


def load_prop(pid: str):
    return importlib.import_module(f"vmon.props.{pid}")


def sig_hash(sig: Any) -> int:
    return int.from_bytes(hashlib.blake2b(repr(sig).encode(), digest_size=8).digest(), "big")


def jsonable(obj: Any) -> Any:
    if isinstance(obj, (str, int, float, bool)) or obj is None:
        return obj
    if isinstance(obj, (list, tuple)):
        return [jsonable(x) for x in obj]
    if isinstance(obj, dict):
        return {str(k): jsonable(v) for k, v in obj.items()}
    return repr(obj)


# ---------------------------------------------------------------------------
# worker
# ---------------------------------------------------------------------------

def worker_main(pid: str, tier: str, seed: int, shard: int, nshards: int, out_path: str) -> int:
    from . import loop

    loop.install_hooks()
    unraisable: List[str] = []
    sys.unraisablehook = lambda u: unraisable.append(f"{type(u.exc_value).__name__}: {u.exc_value} in {u.object!r}"[:200])
    import warnings

    warnings.simplefilter("error", RuntimeWarning)
    prop = load_prop(pid)
    import asyncstdlib

    lib_root = os.path.dirname(os.path.abspath(asyncstdlib.__file__))
    reach = None
    try:
        from . import reach as reach_mod

        anchors = None if os.environ.get("REACH_ALL") else getattr(prop, "ANCHORS", None)
        reach = reach_mod.Reach(anchors) if not os.environ.get("NOREACH") else None
        reach.start()
    except Exception:  # noqa: BLE001 - reach evidence is optional
        reach = None
    stats: Counter = Counter()
    sigs: set = set()
    evaluations = 0
    extra_distinct = 0
    ncases = 0
    samples: List[Any] = []
    viols: Dict[str, dict] = {}
    vcount: Counter = Counter()
    inconclusive: List[str] = []
    t0 = time.time()
    for case in prop.cases(tier, seed, shard, nshards):
        try:
            res = prop.run_case(case, stats)
        except loop.BudgetExceeded:
            inconclusive.append(f"step budget exceeded in {json.dumps(jsonable(case))[:200]}")
            continue
        except (KeyboardInterrupt, SystemExit):
            raise
        except BaseException as exc:  # noqa: BLE001
            if _through_library(exc, lib_root):
                # an exception the scenario does not provide for, raised by or passing through library code
                # (the unchanged tree produces none): a violation, not a harness problem
                key = f"unexpected-exception-from-library/{type(exc).__name__}"
                vcount[key] += 1
                viols.setdefault(key, {"key": key, "msg": f"{type(exc).__name__}: {exc} :: " + traceback.format_exc()[-500:],
                                       "case": jsonable(case), "detail": None})
                evaluations += 1
                continue
            # a harness bug must not look like a verdict
            inconclusive.append("harness error: " + traceback.format_exc()[-600:])
            if len(inconclusive) > 20:
                break
            continue
        evaluations += res.get("evals", 1)
        extra_distinct += res.get("distinct", 0)
        for extra in res.get("sigs", ()):
            sigs.add(sig_hash(extra))
        if res.get("nontrivial"):
            sigs.add(sig_hash(res.get("sig", case)))
        ncases += 1
        if len(samples) < 3 or (ncases % 997 == 0 and len(samples) < 8):
            samples.append(jsonable(res.get("sample", case)))
        for v in res.get("violations", ()):
            key = v["key"]
            vcount[key] += 1
            if key not in viols:
                viols[key] = {"key": key, "msg": v.get("msg", ""), "case": jsonable(case),
                              "detail": jsonable(v.get("detail"))}
    result = {
        "evaluations": evaluations,
        "nsigs": len(sigs),
        "extra_distinct": extra_distinct,
        "stats": dict(stats),
        "samples": samples,
        "violations": viols,
        "vcount": dict(vcount),
        "inconclusive": inconclusive[:10],
        "unraisable": unraisable[:10],
        "n_unraisable": len(unraisable),
        "reach": reach.report() if reach is not None else None,
        "wall_s": time.time() - t0,
    }
    from array import array

    with open(out_path + ".sigs", "wb") as fh:
        array("Q", sorted(sigs)).tofile(fh)
    with open(out_path, "w") as fh:
        json.dump(result, fh)
    # Leave without interpreter finalisation: CPython 3.12.1 can crash when half-finished
    # async generators are collected during shutdown while asyncgen hooks are installed.
    sys.stdout.flush()
    sys.stderr.flush()
    os._exit(0)


def _through_library(exc: BaseException, lib_root: str) -> bool:
    tb = exc.__traceback__
    while tb is not None:
        if os.path.abspath(tb.tb_frame.f_code.co_filename).startswith(lib_root):
            return True
        tb = tb.tb_next
    return False


# ---------------------------------------------------------------------------
# known findings
# ---------------------------------------------------------------------------

def load_known() -> List[dict]:
    try:
        with open(KNOWN_FILE) as fh:
            return json.load(fh).get("findings", [])
    except FileNotFoundError:
        return []


def known_for(pid: str) -> Dict[str, dict]:
    """Open findings only; ``fixed`` entries suppress nothing."""
    return {f["key"]: f for f in load_known() if f.get("property") == pid and f.get("status") == "open"}


# ---------------------------------------------------------------------------
# parent
# ---------------------------------------------------------------------------

def check_repo_under_test() -> str:
    import asyncstdlib

    want = os.path.realpath(os.environ.get("VERIF_REPO", "/repo"))
    have = os.path.realpath(os.path.dirname(os.path.dirname(asyncstdlib.__file__)))
    if have != want:
        print(f"INCONCLUSIVE reason=asyncstdlib imported from {have}, expected {want}")
        sys.exit(2)
    return have


def run_check(pid: str, tier: str, seed: int, workers: int = 0) -> int:
    t0 = time.time()
    repo = check_repo_under_test()
    prop = load_prop(pid)
    nshards = workers or NWORKERS
    nshards = min(nshards, getattr(prop, "MAX_SHARDS", nshards))
    evidence_dir, replay_dir = EVIDENCE_DIR, REPLAY_DIR
    if os.path.realpath(repo) != os.path.realpath("/repo"):
        # another tree is being probed (seeded changes, refactorings): keep its output apart from the
        # evidence of the repository itself
        evidence_dir = os.path.join(EVIDENCE_DIR, ".other")
        replay_dir = os.path.join(evidence_dir, "replays")
    os.makedirs(WORK_DIR, exist_ok=True)
    os.makedirs(replay_dir, exist_ok=True)
    evidence_path = os.path.join(evidence_dir, f"{pid}.json")
    procs = []
    env = dict(os.environ, PYTHONHASHSEED="0")
    for shard in range(nshards):
        out = os.path.join(WORK_DIR, f"{pid}.{tier}.{os.getpid()}.{shard}.json")
        if os.path.exists(out):
            os.unlink(out)
        cmd = [sys.executable, os.path.join(VERIF, "check"), pid, "--tier", tier, "--worker",
               f"{shard}/{nshards}", "--out", out]
        procs.append((shard, out, subprocess.Popen(cmd, env=dict(env, VERIF_SEED=str(seed)), stdout=subprocess.PIPE,
                                                   stderr=subprocess.STDOUT, text=True)))
    deadline = t0 + int(os.environ.get("VERIF_WATCHDOG", WATCHDOG[tier]))
    merged: Dict[str, Any] = {"evaluations": 0, "sigfiles": [], "stats": Counter(), "samples": [], "violations": {},
                              "vcount": Counter(), "inconclusive": [], "unraisable": [], "n_unraisable": 0,
                              "reach": {}, "worker_wall": []}
    for shard, out, proc in procs:
        try:
            output, _ = proc.communicate(timeout=max(1, deadline - time.time()))
        except subprocess.TimeoutExpired:
            proc.kill()
            proc.communicate()
            merged["inconclusive"].append(f"worker {shard} hit the wall-clock watchdog")
            continue
        if proc.returncode != 0 or not os.path.exists(out):
            merged["inconclusive"].append(f"worker {shard} exited {proc.returncode}: {output[-800:]}")
            continue
        with open(out) as fh:
            res = json.load(fh)
        os.unlink(out)
        merged["evaluations"] += res["evaluations"]
        merged["sigfiles"].append(out + ".sigs")
        merged["extra_distinct"] = merged.get("extra_distinct", 0) + res.get("extra_distinct", 0)
        merged["stats"].update(res["stats"])
        if len(merged["samples"]) < 8:
            merged["samples"].extend(res["samples"][:2])
        for key, wit in res["violations"].items():
            merged["violations"].setdefault(key, wit)
        merged["vcount"].update(res["vcount"])
        merged["inconclusive"].extend(res["inconclusive"])
        merged["unraisable"].extend(res["unraisable"][:3])
        merged["n_unraisable"] += res["n_unraisable"]
        merged["worker_wall"].append(round(res["wall_s"], 2))
        if res.get("reach"):
            for fn, info in res["reach"].items():
                cur = merged["reach"].setdefault(fn, {"lines": set(), "total": info["total"]})
                cur["lines"].update(info["lines"])
    # ---- verdict --------------------------------------------------------
    stats = merged["stats"]
    finish = getattr(prop, "finish", None)
    if finish is not None and not merged["inconclusive"]:
        reason = finish(stats, tier)
        if reason:
            merged["inconclusive"].append(reason)
    known = known_for(pid)
    new_viol = []
    lines = []
    for key, wit in sorted(merged["violations"].items()):
        path = os.path.join(replay_dir, f"{pid}-{_slug(key)}.json")
        with open(path, "w") as fh:
            json.dump({"property": pid, "key": key, "msg": wit["msg"], "case": wit["case"], "detail": wit["detail"],
                       "seed": seed, "tier": tier}, fh, indent=1)
        if key in known:
            lines.append(f"KNOWN-FINDING: property={pid} {key}: {known[key].get('what', wit['msg'])} "
                         f"(seen {merged['vcount'][key]}x, witness {os.path.relpath(path, VERIF)})")
        else:
            new_viol.append(key)
            lines.append(f"VIOLATION property={pid} replay={os.path.relpath(path, VERIF)}")
            lines.append(f"  key={key} count={merged['vcount'][key]} :: {wit['msg'][:300]}")
    distinct_files = list(merged["sigfiles"])
    wall = time.time() - t0
    distinct = count_distinct(merged["sigfiles"]) + merged.get("extra_distinct", 0)
    reach_out = {fn: {"reached": len(info["lines"]), "total": info["total"]} for fn, info in sorted(merged["reach"].items())}
    if os.environ.get("REACH_DUMP"):
        # diagnostic only (tools/unreached.py): the full line sets, to find code no workload reaches
        os.makedirs(os.environ["REACH_DUMP"], exist_ok=True)
        with open(os.path.join(os.environ["REACH_DUMP"], f"{pid}.{tier}.json"), "w") as fh:
            json.dump({fn: sorted(info["lines"]) for fn, info in merged["reach"].items()}, fh)
    coverage = {
        "evaluations": merged["evaluations"],
        "distinct_nontrivial": distinct,
        "rule": prop.RULE,
        "samples": merged["samples"][:8],
        "exhaustive": bool(getattr(prop, "EXHAUSTIVE", {}).get(tier, False)),
        "exhaustively_enumerated_subspaces": getattr(prop, "EXHAUSTIVE_SUBSPACES", ""),
        "counters": {k: stats[k] for k in sorted(stats)},
        "lines_reached_in_anchors": reach_out,
        "violation_keys": {k: merged["vcount"][k] for k in sorted(merged["vcount"])},
        "known_findings_seen": sorted(k for k in merged["violations"] if k in known),
        "diagnostics": {"unraisable": merged["n_unraisable"], "unraisable_samples": merged["unraisable"][:5]},
        "workers": nshards,
        "worker_wall_s": merged["worker_wall"],
        "inconclusive": merged["inconclusive"][:5],
        "repo": repo,
    }
    evidence = {
        "property_id": pid,
        "tier": tier,
        "seed": seed,
        "level": prop.LEVEL,
        "coverage": coverage,
        "assumptions": list(getattr(prop, "ASSUMPTIONS", [])),
        "wall_s": round(wall, 2),
        "violations": len(new_viol),
    }
    problems = validate_evidence(evidence)
    if problems:
        merged["inconclusive"].append("evidence would not validate: " + "; ".join(problems))
    with open(evidence_path, "w") as fh:
        json.dump(evidence, fh, indent=1)
    prefix = f"{pid}.{tier}.{os.getpid()}."
    for name in os.listdir(WORK_DIR):
        if name.startswith(prefix):
            try:
                os.unlink(os.path.join(WORK_DIR, name))
            except OSError:
                pass
    for line in lines:
        print(line)
    summary = (f"{pid} tier={tier} seed={seed} evaluations={merged['evaluations']} distinct_nontrivial={distinct} "
               f"wall={wall:.1f}s")
    if new_viol:
        print(f"FAIL {summary} violations={len(new_viol)}")
        return 1
    if merged["inconclusive"]:
        for reason in merged["inconclusive"][:5]:
            print(f"INCONCLUSIVE property={pid} reason={reason}")
        print(f"INCONCLUSIVE {summary}")
        return 2
    keyc = ", ".join(f"{k}={stats[k]}" for k in list(sorted(stats))[:12])
    print(f"HELD {summary} :: {keyc}")
    return 0


def count_distinct(files: List[str]) -> int:
    """Exact number of distinct 64-bit signatures over all workers, in 16 passes by leading bits
    (memory stays bounded for the multi-million case runs of the thorough tier)."""
    from array import array
    from bisect import bisect_left

    arrays = []
    for path in files:
        arr = array("Q")
        try:
            with open(path, "rb") as fh:
                arr.frombytes(fh.read())
        except FileNotFoundError:
            pass
        try:
            os.unlink(path)
        except OSError:
            pass
        arrays.append(arr)
    total = 0
    for bucket in range(16):
        lo, hi = bucket << 60, (bucket + 1) << 60
        seen: set = set()
        for arr in arrays:
            a = bisect_left(arr, lo)
            b = bisect_left(arr, hi) if hi < (1 << 64) else len(arr)
            seen.update(arr[a:b])
        total += len(seen)
    return total


def _slug(key: str) -> str:
    return "".join(c if c.isalnum() or c in "-_." else "_" for c in key)[:100]


def validate_evidence(ev: dict) -> List[str]:
    """Minimal structural validation mirroring EVIDENCE.schema.json (generic level keys)."""
    problems = []
    for k in ("property_id", "tier", "seed", "level", "coverage", "wall_s"):
        if k not in ev:
            problems.append(f"missing {k}")
    cov = ev.get("coverage", {})
    if not isinstance(cov.get("evaluations"), int) or cov.get("evaluations", 0) < 1:
        problems.append("evaluations < 1")
    if not isinstance(cov.get("distinct_nontrivial"), int) or cov.get("distinct_nontrivial", 0) < 2:
        problems.append("distinct_nontrivial < 2")
    if not isinstance(cov.get("rule"), str):
        problems.append("rule missing")
    if not isinstance(cov.get("samples"), list) or not cov.get("samples"):
        problems.append("samples empty")
    return problems


def replay(pid: str, path: str) -> int:
    check_repo_under_test()
    from . import loop

    loop.install_hooks()
    prop = load_prop(pid)
    with open(path) as fh:
        wit = json.load(fh)
    stats: Counter = Counter()
    res = prop.run_case(wit["case"], stats)
    print(json.dumps(jsonable({"case": wit["case"], "violations": res.get("violations", [])}), indent=1)[:6000])
    known = known_for(pid)
    bad = [v for v in res.get("violations", []) if v["key"] not in known]
    for v in res.get("violations", []):
        if v["key"] in known:
            print(f"KNOWN-FINDING: property={pid} {v['key']}")
    if bad:
        print(f"VIOLATION property={pid} replay={path}")
        return 1
    print("replay: no (new) violation")
    return 0
