"""Instrumented items, sources, callables, locks and context managers."""
from __future__ import annotations

import collections.abc
import functools
from typing import Any, List, Optional

from .loop import CTX, Suspend


# ---------------------------------------------------------------------------
# items
# ---------------------------------------------------------------------------

class Item:
    """Ordered / equal / hashed by ``key`` only; distinguishable by ``uid`` and identity."""

    __slots__ = ("key", "uid", "truth", "__weakref__")

    def __init__(self, key: Any, uid: Any, truth: bool = True):
        self.key = key
        self.uid = uid
        self.truth = truth

    def __repr__(self) -> str:
        return f"I({self.key!r}@{self.uid!r})"

    def __lt__(self, other: Any) -> bool:
        if not isinstance(other, Item):
            return NotImplemented
        return self.key < other.key

    def __gt__(self, other: Any) -> bool:
        if not isinstance(other, Item):
            return NotImplemented
        return self.key > other.key

    def __le__(self, other: Any) -> bool:
        if not isinstance(other, Item):
            return NotImplemented
        return self.key <= other.key

    def __ge__(self, other: Any) -> bool:
        if not isinstance(other, Item):
            return NotImplemented
        return self.key >= other.key

    def __eq__(self, other: Any) -> bool:
        if not isinstance(other, Item):
            return NotImplemented
        return self.key == other.key

    def __ne__(self, other: Any) -> bool:
        if not isinstance(other, Item):
            return NotImplemented
        return self.key != other.key

    def __hash__(self) -> int:
        return hash(self.key)

    def __bool__(self) -> bool:
        return self.truth

    def __add__(self, other: Any) -> "Item":
        if not isinstance(other, Item):
            return NotImplemented
        return Item(self.key + other.key, ("+", self.uid, other.uid))


def canon(obj: Any) -> Any:
    """Canonical, hashable, JSON-able form keeping identity information of Items."""
    if isinstance(obj, Item):
        return ("I", obj.uid)
    if isinstance(obj, tuple):
        return ("t",) + tuple(canon(x) for x in obj)
    if isinstance(obj, list):
        return ("l",) + tuple(canon(x) for x in obj)
    if isinstance(obj, (set, frozenset)):
        return ("s",) + tuple(sorted((canon(x) for x in obj), key=repr))
    if isinstance(obj, dict):
        return ("d",) + tuple((canon(k), canon(v)) for k, v in obj.items())
    if isinstance(obj, BaseException):
        return ("E", type(obj).__name__)
    if obj is None or isinstance(obj, (bool, int, str)):
        return ("v", type(obj).__name__, obj)
    if isinstance(obj, float):
        return ("v", "float", repr(obj))
    return ("o", type(obj).__name__, repr(obj))


class Injected(Exception):
    """Default injected fault."""


class InjectedBase(BaseException):
    """Injected fault that is not an ``Exception``."""


class Planned(Exception):
    """Marker base of the failures a scenario plans for user code (getters, cached functions, bodies, exits).

    ``PLANNED`` holds one subclass per standard exception type, so that a harness can raise "a KeyError" or "an
    AttributeError" -- types a library may itself catch for its own purposes -- and still recognise the failure
    as planned with ``except Planned``.
    """


PLANNED = {"Exception": Planned}
for _base in (KeyError, AttributeError, TypeError, ValueError, LookupError, IndexError, RuntimeError, AssertionError,
              StopAsyncIteration, OSError, NotImplementedError):
    PLANNED[_base.__name__] = type("Planned" + _base.__name__, (_base, Planned), {})


class PlannedFalsy(Planned):
    """A failure whose instance is falsy (an "empty" error collection): only ``is None`` tells it from no exception."""

    def __bool__(self) -> bool:
        return False


class PlannedFalsyNeedsArg(Planned):
    """Falsy through ``__len__``, and not constructible without arguments."""

    def __init__(self, reason: Any):
        super().__init__(reason)
        self.reason = reason

    def __len__(self) -> int:
        return 0


class PlannedAbort(BaseException):
    """A planned failure of user code that is NOT an Exception (an abort, a shutdown request raised in it).  Not part of
    ``PLANNED``: checks that plan it add it to their own table and catch ``PLANNED_ANY``."""


PLANNED_ANY = (Planned, PlannedAbort)
PLANNED["Falsy"] = PlannedFalsy
PLANNED["FalsyNeedsArg"] = PlannedFalsyNeedsArg
PLANNED_NAMES = list(PLANNED)


FAULT_TYPES = {
    "Injected": Injected,
    "TypeError": TypeError,
    "ValueError": ValueError,
    "LookupError": LookupError,
    "InjectedBase": InjectedBase,
    "RuntimeError": RuntimeError,
    "AttributeError": AttributeError,
    "KeyError": KeyError,
    "IndexError": IndexError,
    "AssertionError": AssertionError,
    # instances of the root classes themselves (every ``except <Type>`` clause of a library matches them)
    "Exception": Exception,
    "BaseException": BaseException,
}


def _promoted_stop(kind: Any) -> Any:
    def make(message: str) -> BaseException:
        # what a generator-based source raises when a Stop(Async)Iteration escapes its body (PEP 479 / 525): a
        # RuntimeError whose cause is that exception - a FAILURE of the source, not its end
        exc = RuntimeError(f"generator raised {kind.__name__} ({message})")
        exc.__cause__ = kind()
        return exc
    return make


# proper SUBCLASSES of the standard types (a decoding error, a missing-record error, an application's own hierarchy): what
# comes out is that subclass, not its base re-created by somebody's ``except ValueError: raise ValueError(...)``
for _base in (ValueError, TypeError, KeyError, RuntimeError, OSError, StopAsyncIteration, StopIteration, AttributeError):
    FAULT_TYPES[_base.__name__ + "_subclass"] = type("Injected" + _base.__name__, (_base,), {})
FAULT_TYPES["RuntimeError_caused_by_StopIteration"] = _promoted_stop(StopIteration)
FAULT_TYPES["RuntimeError_caused_by_StopAsyncIteration"] = _promoted_stop(StopAsyncIteration)


# ---------------------------------------------------------------------------
# sources
# ---------------------------------------------------------------------------

class Plan:
    """Behaviour of one source: suspensions per use and fault position."""

    __slots__ = ("susp", "fault_at", "exc")

    def __init__(self, susp: int = 0, fault_at: Optional[int] = None, exc: Optional[BaseException] = None):
        self.susp = susp
        self.fault_at = fault_at  # own use index (1-based) at which to raise ``exc``
        self.exc = exc


NOPLAN = Plan()


class SrcState:
    """Lifecycle record shared by all flavours of one source."""

    __slots__ = ("sid", "items", "plan", "pos", "uses", "ended", "closed", "active", "overlap",
                 "faulted", "use_after_fault", "pull_after_end", "gen", "started", "use_after_close",
                 "max_active", "log", "drop", "honour_close", "given")

    def __init__(self, sid: Any, items: List[Any], plan: Plan = NOPLAN, log: bool = True):
        self.sid = sid
        self.given = 0  # iterators handed out by an ITERABLE flavour (ownership of such an iterator starts there)
        self.items = items
        self.plan = plan
        self.pos = 0
        self.uses = 0
        self.ended = False
        self.closed = 0
        self.active = 0
        self.max_active = 0
        self.overlap = 0
        self.faulted = False
        self.use_after_fault = 0
        self.use_after_close = 0
        self.pull_after_end = 0
        self.gen: Any = None  # async generator object for the async_gen flavour
        self.started = False
        self.log = log
        self.drop = False  # forget served items (for retention measurements)
        self.honour_close = True  # a closed class-based source yields nothing more (like a closed generator)

    # -- the part shared by sync and async flavours: one "use" of the source ----
    def begin(self) -> None:
        self.started = True
        self.uses += 1
        CTX.uses += 1
        if self.faulted:
            self.use_after_fault += 1
        if self.closed:
            self.use_after_close += 1

    def commit(self) -> Any:
        """Returns the item or raises the end signal marker ``_End`` / the planned fault."""
        plan = self.plan
        if plan.fault_at is not None and self.uses == plan.fault_at:
            self.faulted = True
            if self.log:
                CTX.ev("fault", self.sid)
            raise plan.exc  # type: ignore[misc]
        if self.pos < len(self.items):
            item = self.items[self.pos]
            if self.log:
                CTX.ev("pull", self.sid, self.pos)
            if self.drop:
                self.items[self.pos] = None
            self.pos += 1
            return item
        if self.ended:
            self.pull_after_end += 1
        self.ended = True
        if self.log:
            CTX.ev("end", self.sid)
        raise _EndType()  # a fresh instance: a shared one would accumulate tracebacks (and frames) forever

    def released(self) -> bool:
        """Closed or run to exhaustion (the C04 notion of released)."""
        if self.gen is not None:
            return self.gen.ag_frame is None
        return self.closed > 0 or self.ended

    def finished_gen(self) -> bool:
        return self.gen is not None and self.gen.ag_frame is None


class _EndType(Exception):
    pass


_End = _EndType()


def _asked(st: SrcState) -> None:
    """The moment a source is (first) asked for its iterator, measured in uses of any source so far."""
    if st.sid not in CTX.iter_asked:
        CTX.iter_asked[st.sid] = {other.sid: other.uses for other in CTX.srcs}


class SyncSrc:
    """Class based synchronous iterator (twin side and ``sync_iter`` flavour)."""

    def __init__(self, st: SrcState):
        self.st = st

    def __iter__(self) -> "SyncSrc":
        _asked(self.st)
        return self

    def __next__(self) -> Any:
        st = self.st
        st.begin()
        try:
            return st.commit()
        except _EndType:
            raise StopIteration from None


class SyncIterable:
    """Re-iterable wrapper returning the one SyncSrc (sources are one-shot)."""

    def __init__(self, st: SrcState):
        self.st = st

    def __iter__(self) -> SyncSrc:
        return SyncSrc(self.st)


def sync_gen(st: SrcState):
    while True:
        st.begin()
        try:
            item = st.commit()
        except _EndType:
            return
        yield item


class GetItemSeq:
    """Only supports the old sequence protocol."""

    def __init__(self, st: SrcState):
        self.st = st

    def __getitem__(self, index: int) -> Any:
        st = self.st
        st.begin()
        try:
            return st.commit()
        except _EndType:
            raise IndexError(index) from None


class AsyncSrc:
    """Class based async iterator with ``aclose``."""

    def __init__(self, st: SrcState):
        self.st = st

    def __bool__(self) -> bool:
        # falsy on purpose (like an object with a zero ``__len__``): never a reason to skip it
        return False

    def __len__(self) -> int:
        # a stream may report its current BACKLOG (like Queue.qsize): that says nothing about how many items it
        # is going to provide, so it is no basis for a shortcut
        return 0

    # value semantics (like a dataclass cursor): every source compares EQUAL to every other one and none is
    # hashable - two sources are the same source only if they are the same object
    def __eq__(self, other: Any) -> bool:
        return isinstance(other, AsyncSrc)

    __hash__ = None  # type: ignore[assignment]

    def __aiter__(self) -> "AsyncSrc":
        return self

    def __iter__(self) -> Any:
        # the object offers the synchronous protocol TOO (a cursor / stream usable from both worlds) and refuses it here:
        # it is an asynchronous iterator, and that is how asynchronous tools treat it - in every respect
        CTX.foreign.append(f"the asynchronous iterator {self.st.sid} was iterated through its synchronous protocol")
        raise RuntimeError("synchronous iteration in an asynchronous context")

    async def __anext__(self) -> Any:
        st = self.st
        st.active += 1
        if st.active > 1:
            st.overlap += 1
        if st.active > st.max_active:
            st.max_active = st.active
        try:
            if st.closed and st.honour_close:
                # like a closed generator: nothing more, and the poll is not a "use"
                st.use_after_close += 1
                raise StopAsyncIteration
            if st.plan.susp:
                await Suspend(("src", st.sid), st.plan.susp)
            # cancellation safe: the use is committed only after the last suspension
            st.begin()
            try:
                return st.commit()
            except _EndType:
                raise StopAsyncIteration from None
        finally:
            st.active -= 1

    async def aclose(self) -> Any:
        self.st.closed += 1
        if self.st.log:
            CTX.ev("close", self.st.sid)
        # what a hand-written ``aclose`` returns is nobody's business: a library that relays it (for instance out
        # of an ``__aexit__``) would turn this truthy value into "exception handled"
        return "closed-by-this-call"


class _CloseJob:
    """What ``AsyncSrcCloseJob.aclose()`` hands back: a future-like awaitable (not a coroutine) that closes the source WHEN
    IT IS AWAITED - created and dropped, it has closed nothing."""

    def __init__(self, st: SrcState):
        self.st = st

    def __await__(self) -> Any:
        self.st.closed += 1
        if self.st.log:
            CTX.ev("close", self.st.sid)
        return "closed-by-this-call"
        yield  # pragma: no cover


class AsyncSrcCloseJob(AsyncSrc):
    """A class based async iterator whose ``aclose`` is a PLAIN method handing back a future-like awaitable (a close
    that is scheduled elsewhere - a gather of several shutdowns, a shielded clean-up): awaiting it is what closes."""

    def aclose(self) -> Any:  # type: ignore[override]
        return _CloseJob(self.st)


class AsyncSrcBare:
    """Class based async iterator without ``aclose``."""

    def __init__(self, st: SrcState):
        self.st = st

    def __aiter__(self) -> "AsyncSrcBare":
        return self

    __anext__ = AsyncSrc.__anext__


class AsyncSrcFull(AsyncSrc):
    """Class based async iterator with aclose/asend/athrow."""

    async def asend(self, value: Any) -> Any:
        CTX.ev("asend", self.st.sid)
        return await self.__anext__()

    async def athrow(self, typ: Any, val: Any = None, tb: Any = None) -> Any:
        CTX.ev("athrow", self.st.sid)
        self.st.closed += 1
        if isinstance(typ, BaseException):
            raise typ
        raise typ()


class AsyncSrcAiterOnce(AsyncSrc):
    """An iterator whose ``__aiter__`` is NOT idempotent once iteration has begun (it would rewind / re-open): asking an
    iterator that is being read for "its iterator" again is reported.  For consumers that fetch with ``__anext__`` only."""

    def __aiter__(self) -> "AsyncSrc":
        if self.st.started:
            CTX.foreign.append(f"__aiter__ of source {self.st.sid} was called again after iteration had begun")
        return self


class AsyncSrcAwaitable(AsyncSrc):
    """An async iterator that is AWAITABLE too (a cursor / task-style handle: ``await cursor`` gives a summary): handed to a
    tool as something to iterate, it is iterated - nobody asked for it to be awaited.  (Not for ``any_iter``, whose
    contract is to await an awaitable argument.)"""

    def __await__(self) -> Any:
        CTX.foreign.append(f"the asynchronous iterator {self.st.sid} was awaited instead of being iterated")
        return ("summary", self.st.sid)
        yield  # pragma: no cover


class AsyncSrcSized(AsyncSrc):
    """A class based async iterator that reports how many items it still holds (a reader over a known range): knowing
    the length is no reason to treat it differently - it is owned, iterated lazily and closed like any other."""

    def __len__(self) -> int:
        return max(0, len(self.st.items) - self.st.pos)

    def __bool__(self) -> bool:
        return len(self) > 0


class AsyncSrcBareFull(AsyncSrcBare):
    """A generator-LIKE class based async iterator: ``asend`` and ``athrow``, but NO ``aclose`` - nothing a holder could
    call to close it; whoever throws a GeneratorExit into it has ended it all the same (counted as a close)."""

    async def asend(self, value: Any) -> Any:
        CTX.ev("asend", self.st.sid)
        return await self.__anext__()

    async def athrow(self, typ: Any, val: Any = None, tb: Any = None) -> Any:
        CTX.ev("athrow", self.st.sid)
        self.st.closed += 1
        if isinstance(typ, BaseException):
            raise typ
        raise typ()


class AsyncSrcAsend(AsyncSrc):
    """Class based async iterator with aclose and asend but without athrow."""

    async def asend(self, value: Any) -> Any:
        CTX.ev("asend", self.st.sid)
        return await self.__anext__()


class AsyncSrcAthrow(AsyncSrc):
    """Class based async iterator with aclose and athrow but without asend: whatever is thrown in is absorbed (a
    resumable feed told to skip ahead) and answered with the next item."""

    async def athrow(self, typ: Any, val: Any = None, tb: Any = None) -> Any:
        CTX.ev("athrow", self.st.sid)
        return await self.__anext__()


class AsyncSrcLazy(AsyncSrc):
    """An async *iterator* doing its set-up when ``__aiter__`` is asked for (positioning a cursor, opening a feed)
    and returning itself: iterating it without having called ``__aiter__`` is a protocol breach of the caller."""

    ready = False

    def __aiter__(self) -> "AsyncSrcLazy":
        self.ready = True
        return self

    def __anext__(self) -> Any:  # type: ignore[override]
        if not self.ready:
            CTX.foreign.append(f"source {self.st.sid} was advanced although its __aiter__ had never been called")
        return AsyncSrc.__anext__(self)


class _FutureLikeStep:
    """What ``AsyncSrcFuture.__anext__`` hands out: an awaitable that is not a coroutine.

    Like a hand-written future, every call of ``__await__`` starts a fresh run of the step.
    The protocol calls ``__await__`` once per ``await``; a relay that calls it again (for
    example once per resumption) restarts the step, which is reported in ``CTX.foreign``.
    """

    __slots__ = ("src", "awaits")

    def __init__(self, src: "AsyncSrcFuture"):
        self.src = src
        self.awaits = 0

    def __await__(self):
        self.awaits += 1
        if self.awaits > 1:
            CTX.foreign.append(f"awaitable of source {self.src.st.sid} restarted: __await__ called {self.awaits} times "
                               f"for one await")
        return (yield from AsyncSrc.__anext__(self.src).__await__())


class AsyncSrcFuture(AsyncSrc):
    """Class based async iterator whose ``__anext__`` returns a future-like awaitable object."""

    def __anext__(self) -> Any:  # type: ignore[override]
        return _FutureLikeStep(self)


class AsyncSrcProxy:
    """An adapter: iterates itself, forwards every other attribute (``aclose`` ...) via ``__getattr__``.

    ``hasattr``/``getattr`` find the forwarded ``aclose``; static look-ups (``inspect.getattr_static``, protocol
    ``isinstance`` checks) do not.  For a user it is a closeable async iterator like any other.
    """

    def __init__(self, st: SrcState):
        self.st = st
        self._inner = AsyncSrc(st)

    def __aiter__(self) -> "AsyncSrcProxy":
        return self

    def __anext__(self) -> Any:
        return self._inner.__anext__()

    def __getattr__(self, name: str) -> Any:
        if name.startswith("__") or name in ("asend", "athrow"):
            raise AttributeError(name)
        return getattr(self._inner, name)


class AsyncSrcLateClose(AsyncSrcProxy):
    """An adapter that opens its stream at the first ``__anext__``: only from then on is there anything to close,
    and only from then on does it forward ``aclose`` (before, ``hasattr(it, "aclose")`` is false).  Whether a source
    can be closed is a question to ask when it is to be closed."""

    opened = False

    def __anext__(self) -> Any:
        self.opened = True
        return self._inner.__anext__()

    def __getattr__(self, name: str) -> Any:
        if name == "aclose" and not self.opened:
            raise AttributeError(name)
        return AsyncSrcProxy.__getattr__(self, name)


class AsyncSrcDelegating:
    """A front-end object with ``__anext__`` (and ``aclose``) of its own whose ``__aiter__`` hands out the inner
    iterator it shares with its owner - a different object.  Unusual for an iterator, but it passes every protocol
    check; "``__aiter__()`` gave me another object" therefore does not mean "a fresh iterator nobody else holds"."""

    def __init__(self, st: SrcState):
        self.st = st
        self._inner = AsyncSrc(st)

    def __bool__(self) -> bool:
        return False

    def __aiter__(self) -> Any:
        return self._inner

    def __anext__(self) -> Any:
        return self._inner.__anext__()

    def aclose(self) -> Any:
        return self._inner.aclose()


class _EagerStep:
    """Awaitable of ``AsyncSrcEagerStart``: the request is already under way, awaiting merely waits for it."""

    __slots__ = ("st", "outcome")

    def __init__(self, st: SrcState, outcome: Any):
        self.st, self.outcome = st, outcome

    def __await__(self) -> Any:
        st = self.st
        try:
            if st.plan.susp:
                yield from Suspend(("src", st.sid), st.plan.susp).__await__()
        finally:
            st.active -= 1
        kind, value = self.outcome
        if kind == "item":
            return value
        if kind == "end":
            raise StopAsyncIteration
        raise value


class AsyncSrcEagerStart(AsyncSrc):
    """A future-style channel: ``__anext__`` is a plain method that STARTS the fetch when it is called (the item is
    taken from the stream right then) and hands back an awaitable for its completion.  A request that is started and
    never awaited loses its item; two requests started at once are two consumers in the source at the same time."""

    def __anext__(self) -> Any:  # type: ignore[override]
        st = self.st
        if st.closed and st.honour_close:
            st.use_after_close += 1
            st.active += 1
            return _EagerStep(st, ("end", None))
        st.active += 1
        if st.active > 1:
            st.overlap += 1
        if st.active > st.max_active:
            st.max_active = st.active
        st.begin()
        try:
            return _EagerStep(st, ("item", st.commit()))
        except _EndType:
            return _EagerStep(st, ("end", None))
        except BaseException as exc:  # noqa: BLE001 - a planned fault: delivered when awaited
            return _EagerStep(st, ("raise", exc))


class AsyncSrcPlainNext(AsyncSrc):
    """A hand-written async iterator whose ``__anext__`` is a plain method: it hands out an awaitable - and when it
    fails it fails right there, when CALLED (a front-end forwarding to an inner object that is gone), not when the
    result is awaited.  The failure is the source's either way."""

    def __anext__(self) -> Any:  # type: ignore[override]
        st = self.st
        plan = st.plan
        if plan.fault_at is not None and st.uses + 1 == plan.fault_at and not (st.closed and st.honour_close):
            st.begin()
            st.faulted = True
            if st.log:
                CTX.ev("fault", st.sid)
            raise plan.exc  # type: ignore[misc]
        if st.pos >= len(st.items) and not (st.closed and st.honour_close) and plan.fault_at is None:
            # ... and it reports its END right there as well: StopAsyncIteration raised by the call, not by awaiting
            # what the call returned (``async for`` takes both the same way)
            st.begin()
            try:
                st.commit()
            except _EndType:
                raise StopAsyncIteration from None
            raise AssertionError("a drained source handed out an item")
        return AsyncSrc.__anext__(self)


class AsyncIterable:
    """An async *iterable* that is not its own iterator (a collection, a query): asked for an iterator it hands out
    a fresh one.  The counterparts call ``iter()`` on each argument exactly once; a second request would, for a
    real collection, silently start over - here it is reported in ``CTX.foreign``."""

    def __init__(self, st: SrcState):
        self.st = st
        self.asked = 0

    def __bool__(self) -> bool:
        return False

    def __len__(self) -> int:
        return 0

    def __aiter__(self) -> "AsyncSrc":
        self.asked += 1
        if self.asked > 1:
            CTX.foreign.append(f"iterable {self.st.sid} was asked for an iterator {self.asked} times")
        self.st.given += 1
        _asked(self.st)
        return AsyncSrc(self.st)

    def __iter__(self) -> Any:
        # the collection offers the synchronous protocol TOO (a result set usable from both worlds) - and refuses it
        # in asynchronous code.  It is asynchronously iterable: that is how asynchronous tools iterate it
        CTX.foreign.append(f"the asynchronously iterable {self.st.sid} was iterated through its synchronous protocol")
        raise RuntimeError("synchronous iteration in an asynchronous context")


class SyncIterable:
    """The synchronous twin of ``AsyncIterable``: a *sized*, lazily produced collection (a dataset / record store with
    ``__len__`` and ``__iter__``) - knowing how many items there will be is no reason to fetch them ahead of time."""

    def __init__(self, st: SrcState):
        self.st = st
        self.asked = 0
        # attributes that merely LOOK like the asynchronous protocols (set on the instance: a proxy, a record with
        # such fields): the protocols are looked up on the type - this is a synchronous collection and nothing else
        self.__aiter__ = self.__anext__ = self.__await__ = self._touched

    def _touched(self, *args: Any) -> Any:
        CTX.foreign.append(f"an instance attribute of the synchronous collection {self.st.sid} was used as an async protocol method")
        raise TypeError("not an asynchronous object")

    def __bool__(self) -> bool:
        return False

    def __len__(self) -> int:
        return len(self.st.items)

    def __iter__(self) -> Any:
        self.asked += 1
        if self.asked > 1:
            CTX.foreign.append(f"iterable {self.st.sid} was asked for an iterator {self.asked} times")
        _asked(self.st)
        return SyncSrc(self.st)


async def _async_gen(st: SrcState):
    try:
        while True:
            st.active += 1
            if st.active > 1:
                st.overlap += 1
            try:
                if st.plan.susp:
                    await Suspend(("src", st.sid), st.plan.susp)
                st.begin()
                try:
                    item = st.commit()
                except _EndType:
                    return
            finally:
                st.active -= 1
            yield item
    except GeneratorExit:
        st.closed += 1
        if st.log:
            CTX.ev("close", st.sid)
        raise


class SyncSequence(SyncIterable, collections.abc.Sequence):
    """A lazily produced collection that is also a ``collections.abc.Sequence`` (a page-backed record list): tools walk
    it once, through its iterator, like their counterparts - random access is there for the user, not for them."""

    def __getitem__(self, index: Any) -> Any:
        CTX.foreign.append(f"the sequence {self.st.sid} was indexed ({index!r}) instead of being iterated")
        return self.st.items[index]


FLAVOURS_SYNC = ("list", "tuple", "getitem_seq", "sync_iter", "sync_gen", "sync_iterable", "tuple_sub", "list_sub", "sync_mapping", "sync_sequence")
FLAVOURS_ASYNC = ("async_gen", "async_class", "async_class_bare", "async_class_full", "async_class_asend",
                  "async_class_future", "async_class_proxy", "async_class_lazy", "async_iterable", "async_class_lateclose", "async_class_delegating", "async_class_plainnext", "async_class_eagerstart", "async_class_bare_full", "async_class_sized", "async_class_aiter_once", "async_class_awaitable", "async_class_athrow", "async_class_closejob")
FLAVOURS = FLAVOURS_SYNC + FLAVOURS_ASYNC


class TupleSub(tuple):
    """A tuple SUBCLASS (a record type, a namedtuple): iterated like any tuple; the builtins build a plain tuple / list
    / set from it, they do not hand the instance itself back."""


class ListSub(list):
    """A list subclass."""


class LenientItem(Item):
    """An item that considers itself equal to anything that is not an item (like ``unittest.mock.ANY``, a wildcard
    record): a value like any other - only identity tells a library's own placeholders from it."""

    __slots__ = ()

    def __eq__(self, other: Any) -> bool:
        if not isinstance(other, Item):
            return True
        return self.key == other.key

    def __ne__(self, other: Any) -> bool:
        return not self.__eq__(other)

    __hash__ = Item.__hash__


class JobItem(Item):
    """An item that happens to be awaitable (a job the OWNER of the stream will run when it sees fit): payload.  Being
    awaited by anything but the test itself is reported as a foreign action."""

    __slots__ = ()

    def __await__(self) -> Any:
        CTX.foreign.append(f"the library awaited the item {self!r} of a stream")
        return ("what running the job gives", self.uid)
        yield  # pragma: no cover


class SyncMapping(__import__("collections").abc.Mapping):
    """A synchronous MAPPING handed over as an iterable: iterating it gives its keys (the items), one by one, like any
    other synchronous iterable.  Looking entries up in it is not what an iterable is for - reported as foreign."""

    def __init__(self, st: SrcState):
        self.st = st
        self.asked = 0

    def __iter__(self) -> Any:
        self.asked += 1
        if self.asked > 1:
            CTX.foreign.append(f"iterable {self.st.sid} was asked for an iterator {self.asked} times")
        _asked(self.st)
        return SyncSrc(self.st)

    def __len__(self) -> int:
        return len(self.st.items)

    def __getitem__(self, key: Any) -> Any:
        CTX.foreign.append(f"the mapping {self.st.sid}, handed over as an iterable, was asked for the value of {key!r}")
        raise KeyError(key)

    def keys(self) -> Any:
        CTX.foreign.append(f"the mapping {self.st.sid}, handed over as an iterable, was asked for its keys() view")
        return super().keys()

    def items(self) -> Any:
        CTX.foreign.append(f"the mapping {self.st.sid}, handed over as an iterable, was asked for its items() view")
        return super().items()


class NotIterable:
    """An argument that supports no iteration protocol at all (a number, a record handed over by mistake)."""

    def __init__(self, st: SrcState):
        self.st = st

    def __repr__(self) -> str:
        return f"<not iterable {self.st.sid}>"


class Unopenable(NotIterable):
    """An async iterable whose iterator cannot be obtained: ``__aiter__`` itself fails (a connection refused, a wrong
    type found while opening) - unlike a non-iterable value, whose refusal surfaces only at the first item."""

    def __aiter__(self):
        raise TypeError(f"cannot open {self.st.sid}")


def make_source(st: SrcState, flavour: str) -> Any:
    """Build the object handed to the library for ``st`` in the given flavour."""
    if flavour == "not_iterable":
        return NotIterable(st)
    if flavour == "unopenable":
        return Unopenable(st)
    if flavour == "sync_mapping":
        return SyncMapping(st)
    if flavour == "tuple_sub":
        return TupleSub(st.items)
    if flavour == "list_sub":
        return ListSub(st.items)
    if flavour == "list":
        return list(st.items)
    if flavour == "tuple":
        return tuple(st.items)
    if flavour == "getitem_seq":
        return GetItemSeq(st)
    if flavour == "sync_iter":
        return SyncSrc(st)
    if flavour == "sync_gen":
        return sync_gen(st)
    if flavour == "async_gen":
        st.gen = _async_gen(st)
        return st.gen
    if flavour == "async_class":
        return AsyncSrc(st)
    if flavour == "async_class_bare":
        return AsyncSrcBare(st)
    if flavour == "async_class_full":
        return AsyncSrcFull(st)
    if flavour == "async_class_bare_full":
        return AsyncSrcBareFull(st)
    if flavour == "async_class_sized":
        return AsyncSrcSized(st)
    if flavour == "async_class_aiter_once":
        return AsyncSrcAiterOnce(st)
    if flavour == "async_class_awaitable":
        return AsyncSrcAwaitable(st)
    if flavour == "async_class_closejob":
        return AsyncSrcCloseJob(st)
    if flavour == "async_class_asend":
        return AsyncSrcAsend(st)
    if flavour == "async_class_athrow":
        return AsyncSrcAthrow(st)
    if flavour == "async_class_future":
        return AsyncSrcFuture(st)
    if flavour == "async_class_proxy":
        return AsyncSrcProxy(st)
    if flavour == "async_class_lazy":
        return AsyncSrcLazy(st)
    if flavour == "async_class_eagerstart":
        return AsyncSrcEagerStart(st)
    if flavour == "async_class_plainnext":
        return AsyncSrcPlainNext(st)
    if flavour == "async_class_delegating":
        return AsyncSrcDelegating(st)
    if flavour == "async_class_lateclose":
        return AsyncSrcLateClose(st)
    if flavour == "async_iterable":
        return AsyncIterable(st)
    if flavour == "sync_iterable":
        return SyncIterable(st)
    if flavour == "sync_sequence":
        return SyncSequence(st)
    raise ValueError(flavour)


# ---------------------------------------------------------------------------
# callables
# ---------------------------------------------------------------------------

FN_FLAVOURS = ("def", "async_def", "partial", "callobj", "awaitobj")


class FnState:
    __slots__ = ("name", "impl", "susp", "fault_at", "exc", "uses", "faulted", "use_after_fault", "fault_phase",
                 "log")

    def __init__(self, name: str, impl: Any, susp: int = 0, fault_at: Optional[int] = None,
                 exc: Optional[BaseException] = None, fault_phase: str = "call", log: bool = True):
        self.name = name
        self.impl = impl
        self.susp = susp
        self.fault_at = fault_at
        self.exc = exc
        self.uses = 0
        self.faulted = False
        self.use_after_fault = 0
        self.fault_phase = fault_phase  # "call": raise when called; "await": raise inside the awaited part
        self.log = log

    def enter(self, args: tuple, kwargs: Optional[dict] = None) -> bool:
        """Record one call; returns True if this call is to fail."""
        self.uses += 1
        CTX.uses += 1
        if self.faulted:
            self.use_after_fault += 1
        if self.log:
            if kwargs:
                CTX.ev("call", self.name, canon(args), canon(kwargs))
            else:
                CTX.ev("call", self.name, canon(args))
        if self.fault_at is not None and self.uses == self.fault_at:
            self.faulted = True
            return True
        return False


class _AwaitObj:
    """Custom awaitable (not a coroutine)."""

    __slots__ = ("coro",)

    def __init__(self, coro: Any):
        self.coro = coro

    def __await__(self):
        return self.coro.__await__()


def make_fn(fs: FnState, flavour: str) -> Any:
    """Callable of the requested flavour computing ``fs.impl``."""

    def sync_call(*args: Any, **kwargs: Any) -> Any:
        if fs.enter(args, kwargs):
            raise fs.exc  # type: ignore[misc]
        return fs.impl(*args, **kwargs)

    async def async_call(*args: Any, **kwargs: Any) -> Any:
        fail = fs.enter(args, kwargs)
        if fs.susp:
            await Suspend(("fn", fs.name), fs.susp)
        if fail:
            raise fs.exc  # type: ignore[misc]
        return fs.impl(*args, **kwargs)

    async def async_tail(fail: bool, args: tuple, kwargs: dict) -> Any:
        if fs.susp:
            await Suspend(("fn", fs.name), fs.susp)
        if fail:
            raise fs.exc  # type: ignore[misc]
        return fs.impl(*args, **kwargs)

    def eager_call(*args: Any, **kwargs: Any) -> Any:
        # logs/fails at call time (like a plain function returning an awaitable)
        fail = fs.enter(args, kwargs)
        if fail and fs.fault_phase == "call":
            raise fs.exc  # type: ignore[misc]
        return async_tail(fail, args, kwargs)

    if flavour == "notcallable":
        # what a caller passes by mistake: using it fails with TypeError at the first use
        return 5
    if flavour == "def":
        return sync_call
    if flavour == "async_def":
        return async_call
    if flavour == "partial":
        async def with_extra(_extra: Any, *args: Any, **kwargs: Any) -> Any:
            return await async_call(*args, **kwargs)

        return functools.partial(with_extra, None)
    if flavour == "callobj":
        class CallObj:
            def __call__(self, *args: Any, **kwargs: Any) -> Any:
                return eager_call(*args, **kwargs)

            def __bool__(self) -> bool:
                # a callable object may well be falsy (an empty registry, a zero-length wrapper): "was a key given?"
                # can only be asked with ``is None``
                return False

        return CallObj()
    if flavour == "awaitobj":
        class AwaitCallObj:
            def __call__(self, *args: Any, **kwargs: Any) -> Any:
                return _AwaitObj(eager_call(*args, **kwargs))

            def __len__(self) -> int:
                return 0

        return AwaitCallObj()
    if flavour == "classobj":
        class Job:
            """The callable IS a class: calling it creates an awaitable job object (the call logs / may fail like any
            plain function handing back an awaitable)."""

            def __init__(self, *args: Any, **kwargs: Any):
                self._rest = eager_call(*args, **kwargs)

            def __await__(self) -> Any:
                return self._rest.__await__()

        return Job
    if flavour == "builtin_abs":
        # a BUILTIN function (C implemented, neither ``def`` nor ``async def``) that hands back an awaitable: ``abs`` gives
        # whatever its argument's ``__abs__`` gives.  Its argument is wrapped accordingly by the caller (AbsArg).
        return abs
    raise ValueError(flavour)


# ---------------------------------------------------------------------------
# lock
# ---------------------------------------------------------------------------

class VLock:
    """Async context manager lock; blocking is communicated to the driver via tokens."""

    def __init__(self, name: str = "lock", susp_enter: int = 0, susp_exit: int = 0):
        self.name = name
        self.owner: Any = None
        self.acquisitions = 0
        self.contended = 0
        self.releases = 0
        self.bad_release = 0
        self.susp_enter = susp_enter
        self.susp_exit = susp_exit  # suspend after the lock was handed back (locks whose release is a checkpoint)

    def __bool__(self) -> bool:
        # falsy on purpose: "was a lock given?" can only be asked with ``is None``
        return False

    def locked(self) -> bool:
        # (as asyncio.Lock / trio.Lock offer it) a snapshot that is out of date at the next suspension point: "not
        # locked right now" does not mean that acquiring will not suspend, nor that nobody else gets it first
        return self.owner is not None

    # the explicit protocol next to the context manager one, BOTH asynchronous (as curio-style locks have it): a user of
    # the lock that prefers acquire()/release() has to await both - a release() that is merely called releases nothing
    async def acquire(self) -> bool:
        await self.__aenter__()
        return True

    async def release(self) -> None:
        await self.__aexit__(None, None, None)

    async def __aenter__(self) -> "VLock":
        if self.susp_enter:
            await Suspend(("lock-pre", self.name), self.susp_enter)
        waited = False
        while self.owner is not None:
            waited = True
            await Suspend(("lock", self.name), 1, block=self)
        if waited:
            self.contended += 1
        # acquisition is the last action of __aenter__
        self.owner = CTX.current or "?"
        self.acquisitions += 1
        CTX.ev("acquire", self.name, self.owner)
        return self

    async def __aexit__(self, *exc: Any) -> None:
        if self.owner is None:
            self.bad_release += 1
        CTX.ev("release", self.name, self.owner)
        self.owner = None
        self.releases += 1
        if self.susp_exit:
            await Suspend(("lock-post", self.name), self.susp_exit)
        return None
