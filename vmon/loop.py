"""Hand-driven event loop ("driver") used by every check.

asyncstdlib is loop agnostic, so the hostile environment is a loop we fully control:
tasks are plain coroutines advanced with ``send``/``throw``; every suspension must be a
``Token`` emitted by one of *our* probes, and what we send back must arrive at that very
probe.  Everything else that surfaces is recorded as a *foreign suspension* (C17 oracle,
active in every check).
"""
from __future__ import annotations

import random
import sys
from typing import Any, Callable, List, Optional


class Token:
    """What a probe yields to the loop.  Unique per suspension."""

    __slots__ = ("owner", "seq", "block")

    def __init__(self, owner: Any, seq: int, block: Any = None):
        self.owner = owner
        self.seq = seq
        self.block = block  # a VLock the emitting task is waiting for, or None

    def __repr__(self) -> str:
        return f"<Token {self.owner}#{self.seq}{' blocked' if self.block is not None else ''}>"


class Reply:
    """What the loop sends back for a token.  Unique per resume."""

    __slots__ = ("token",)

    def __init__(self, token: Token):
        self.token = token


class Cancel(BaseException):
    """Thrown by the driver to cancel a task (unique object per injection)."""


class FalsyCancel(Cancel):
    """A cancellation whose exception OBJECT tests false (an exception class that is also a sized collection - of
    sub-errors, of pending jobs - and currently empty): an exception like any other; only ``is None`` tells "no exception"."""

    def __len__(self) -> int:
        return 0


class Poke(BaseException):
    """Thrown by the driver at a probe which absorbs it and continues (C17)."""


class Ctx:
    """Per-execution shared state of probes and driver (single threaded)."""

    def __init__(self) -> None:
        self.reset()

    def reset(self) -> None:
        if getattr(self, "deferred", None):
            run_finalizers()  # generators abandoned by the previous execution
        self.deferred: List[Any] = []  # async generators handed to the finaliser hook, not yet closed
        self.log: List[tuple] = []
        self.seq = 0
        self.emitted: Optional[Token] = None  # token emitted during the current step
        self.expect: Any = None  # (token, reply-or-exception) the driver delivered
        self.foreign: List[str] = []  # foreign suspensions / protocol breaches
        self.suspensions = 0
        self.current: Any = None  # running task (name) for attribution
        self.current_task: Any = None
        self.agen_finalized: List[str] = []  # async generators finalised by the GC hook
        self.agen_started = 0
        self.uses = 0
        self.poke_absorbed = 0
        self.token_owners: List[Any] = []  # owner of every token emitted, in order
        self.iter_asked: dict = {}  # source id -> uses of every source (by id) so far when it was FIRST asked for an iterator
        self.srcs: List[Any] = []  # the source states of the running differential side
        self.thrown = False  # drive() has thrown its cancellation into the coroutine

    def ev(self, *event: Any) -> None:
        self.log.append(event)


CTX = Ctx()


class Suspend:
    """Awaitable emitting ``n`` tokens; verifies each reply/throw is the driver's."""

    __slots__ = ("owner", "n", "block")

    def __init__(self, owner: Any, n: int = 1, block: Any = None):
        self.owner = owner
        self.n = n
        self.block = block

    def __await__(self):
        ctx = CTX
        for _ in range(self.n):
            ctx.seq += 1
            tok = Token(self.owner, ctx.seq, self.block)
            ctx.emitted = tok
            ctx.suspensions += 1
            ctx.token_owners.append(self.owner)
            while True:
                try:
                    reply = yield tok
                except Poke as exc:
                    exp = ctx.expect
                    if exp is None or exp[0] is not tok or exp[1] is not exc:
                        ctx.foreign.append(f"throw-mismatch at {tok!r}: got {exc!r}")
                    ctx.expect = None
                    ctx.poke_absorbed += 1
                    # absorb and suspend again with a fresh token
                    ctx.seq += 1
                    tok = Token(self.owner, ctx.seq, self.block)
                    ctx.emitted = tok
                    ctx.suspensions += 1
                    continue
                except GeneratorExit:
                    # close()/throw(GeneratorExit) reaches delegated awaitables via their own close():
                    # the interpreter raises a fresh GeneratorExit here, identity cannot be checked
                    ctx.expect = None
                    raise
                except BaseException as exc:
                    exp = ctx.expect
                    if exp is None or exp[0] is not tok or exp[1] is not exc:
                        ctx.foreign.append(f"throw-mismatch at {tok!r}: got {exc!r}")
                    ctx.expect = None
                    raise
                else:
                    exp = ctx.expect
                    if exp is None or exp[0] is not tok or exp[1] is not reply:
                        ctx.foreign.append(f"reply-mismatch at {tok!r}: got {reply!r}")
                    ctx.expect = None
                    break
        return None


def suspend(owner: Any, n: int = 1) -> Suspend:
    return Suspend(owner, n)


# ---------------------------------------------------------------------------
# async generator hooks (what a real loop does)
# ---------------------------------------------------------------------------

def _firstiter(agen: Any) -> None:
    CTX.agen_started += 1


def _finalizer(agen: Any) -> None:
    # A real loop only *schedules* ``agen.aclose()`` for a later iteration.  We do the same: the generator is
    # parked and closed by ``run_finalizers()`` (next execution, or when a scenario lets "time pass").  Closing
    # it right here would hide leaks behind CPython's reference counting (C04/C18: no GC grace).
    CTX.deferred.append(agen)


def run_finalizers() -> int:
    """Close the async generators the garbage collector handed to the finaliser hook."""
    done = 0
    while CTX.deferred:
        agen = CTX.deferred.pop()
        name = getattr(agen, "__qualname__", repr(agen))
        CTX.agen_finalized.append(name)
        done += 1
        try:
            drive(agen.aclose())
        except RuntimeError as exc:
            # CPython leaves a generator marked "running" when GeneratorExit was thrown through one of its
            # pending asend() awaitables; nothing can be closed then and it says nothing about the library
            if "already running" not in str(exc):
                CTX.foreign.append(f"finalizer of {name} raised {type(exc).__name__}: {exc}")
        except BaseException as exc:  # noqa: BLE001 - diagnostics only
            CTX.foreign.append(f"finalizer of {name} raised {type(exc).__name__}: {exc}")
    return done


def install_hooks() -> None:
    sys.set_asyncgen_hooks(firstiter=_firstiter, finalizer=_finalizer)


# ---------------------------------------------------------------------------
# single task driving
# ---------------------------------------------------------------------------

class Outcome:
    """Result of driving one coroutine."""

    __slots__ = ("value", "exc", "suspensions")

    def __init__(self, value: Any = None, exc: Optional[BaseException] = None, suspensions: int = 0):
        self.value = value
        self.exc = exc
        self.suspensions = suspensions


STEP_BUDGET = 20000


class BudgetExceeded(Exception):
    pass


def drive(coro: Any, cancel_at: Optional[int] = None, cancel_exc: Optional[BaseException] = None,
          poke_at: Optional[int] = None) -> Any:
    """Run one coroutine to completion answering every token at once.

    ``cancel_at=k``: instead of answering the k-th suspension (1-based) throw ``cancel_exc``.
    Returns the coroutine's value or raises its exception.  Foreign suspensions are noted
    in ``CTX.foreign`` and answered with ``None`` so the run can continue.
    """
    ctx = CTX
    n = 0
    send: Any = None
    throw: Optional[BaseException] = None
    while True:
        ctx.emitted = None
        try:
            if throw is not None:
                exc, throw = throw, None
                if cancel_at is not None and n == cancel_at:
                    ctx.thrown = True
                surfaced = coro.throw(exc)
            else:
                surfaced = coro.send(send)
        except StopIteration as stop:
            return stop.value
        n += 1
        if n > STEP_BUDGET:
            coro.close()
            raise BudgetExceeded()
        if not isinstance(surfaced, Token) or surfaced is not ctx.emitted:
            ctx.foreign.append(f"foreign suspension: {surfaced!r}")
            ctx.expect = None
            send = None
            continue
        if cancel_at is not None and n == cancel_at:
            throw = cancel_exc if cancel_exc is not None else Cancel()
            ctx.expect = (surfaced, throw)
        elif poke_at is not None and n == poke_at:
            throw = Poke()
            ctx.expect = (surfaced, throw)
        else:
            send = Reply(surfaced)
            ctx.expect = (surfaced, send)


def run_sync(coro: Any) -> Any:
    """Drive a coroutine that must not suspend at all (all-sync clause of C17)."""
    try:
        surfaced = coro.send(None)
    except StopIteration as stop:
        return stop.value
    CTX.foreign.append(f"suspended with synchronous arguments: {surfaced!r}")
    coro.close()
    return None


# ---------------------------------------------------------------------------
# multi task driver with controllable schedules
# ---------------------------------------------------------------------------

class Task:
    __slots__ = ("name", "coro", "done", "value", "exc", "token", "resumes", "started",
                 "cancel_at", "cancel_exc", "cancelled_at_owner", "send")

    def __init__(self, name: str, coro: Any, cancel_at: Optional[int] = None):
        self.name = name
        self.coro = coro
        self.done = False
        self.value: Any = None
        self.exc: Optional[BaseException] = None
        self.token: Optional[Token] = None  # token the task is suspended at
        self.resumes = 0  # number of suspensions so far
        self.started = False
        self.cancel_at = cancel_at  # throw Cancel instead of answering this suspension
        self.cancel_exc: Optional[BaseException] = None
        self.cancelled_at_owner: Any = None
        self.send: Any = None

    def runnable(self) -> bool:
        if self.done:
            return False
        if self.cancel_at is not None and self.resumes == self.cancel_at and self.cancel_exc is None:
            return True  # cancellation can be delivered even while blocked
        tok = self.token
        if tok is not None and tok.block is not None:
            return tok.block.owner is None
        return True


class Deadlock(Exception):
    pass


class Driver:
    """Advances one task per step; ``choose(runnable_indices)`` picks which."""

    def __init__(self, choose: Callable[[List[int]], int], after_step: Optional[Callable[["Driver", Task], None]] = None,
                 budget: int = STEP_BUDGET):
        self.tasks: List[Task] = []
        self.choose = choose
        self.after_step = after_step
        self.budget = budget
        self.steps = 0
        self.trace: List[int] = []  # chosen task index per step
        self.choice_points = 0  # steps at which >= 2 tasks were runnable
        self.deadlock = False

    def spawn(self, name: str, coro: Any, cancel_at: Optional[int] = None) -> Task:
        task = Task(name, coro, cancel_at)
        self.tasks.append(task)
        return task

    def step(self, task: Task) -> None:
        ctx = CTX
        ctx.emitted = None
        ctx.current = task.name
        ctx.current_task = task
        try:
            if not task.started:
                task.started = True
                surfaced = task.coro.send(None)
            elif task.cancel_at is not None and task.resumes == task.cancel_at and task.cancel_exc is None:
                # (every other cancellation OBJECT tests false: an exception like any other)
                task.cancel_exc = (FalsyCancel if (self.steps + task.resumes) % 2 else Cancel)()
                task.cancelled_at_owner = task.token.owner if task.token is not None else None
                ctx.expect = (task.token, task.cancel_exc)
                surfaced = task.coro.throw(task.cancel_exc)
            else:
                reply = Reply(task.token)  # type: ignore[arg-type]
                ctx.expect = (task.token, reply)
                surfaced = task.coro.send(reply)
        except StopIteration as stop:
            task.done = True
            task.value = stop.value
            task.token = None
            return
        except BaseException as exc:  # noqa: BLE001
            task.done = True
            # drop the traceback: its frames would pin locals of library generators (retention monitors)
            task.exc = exc.with_traceback(None)
            task.token = None
            return
        finally:
            ctx.current = None
            ctx.current_task = None
        task.resumes += 1
        if not isinstance(surfaced, Token) or surfaced is not ctx.emitted:
            ctx.foreign.append(f"foreign suspension in {task.name}: {surfaced!r}")
            task.token = Token("foreign", -1)
        else:
            task.token = surfaced

    def run(self) -> None:
        tasks = self.tasks
        while True:
            runnable = [i for i, t in enumerate(tasks) if t.runnable()]
            if not runnable:
                if any(not t.done for t in tasks):
                    self.deadlock = True
                return
            if len(runnable) > 1:
                self.choice_points += 1
                idx = self.choose(runnable)
            else:
                idx = runnable[0]
            self.trace.append(idx)
            self.steps += 1
            if self.steps > self.budget:
                for t in tasks:
                    if not t.done:
                        t.coro.close()
                raise BudgetExceeded()
            task = tasks[idx]
            self.step(task)
            if self.after_step is not None:
                self.after_step(self, task)


# ---- schedule strategies ----------------------------------------------------

def rr_strategy() -> Callable[[List[int]], int]:
    state = {"last": -1}

    def choose(runnable: List[int]) -> int:
        for i in runnable:
            if i > state["last"]:
                state["last"] = i
                return i
        state["last"] = runnable[0]
        return runnable[0]

    return choose


def random_strategy(rng: random.Random) -> Callable[[List[int]], int]:
    return lambda runnable: rng.choice(runnable)


def pct_strategy(rng: random.Random, ntasks: int, depth: int, horizon: int = 60) -> Callable[[List[int]], int]:
    """PCT-like: random task priorities, ``depth`` priority change points."""
    prio = list(range(ntasks))
    rng.shuffle(prio)
    change = sorted(rng.randrange(1, horizon) for _ in range(depth))
    state = {"n": 0}

    def choose(runnable: List[int]) -> int:
        state["n"] += 1
        best = max(runnable, key=lambda i: prio[i])
        if change and state["n"] >= change[0]:
            change.pop(0)
            prio[best] = min(prio) - 1
            best = max(runnable, key=lambda i: prio[i])
        return best

    return choose


def replay_strategy(trace: List[int]) -> Callable[[List[int]], int]:
    it = iter(trace)

    def choose(runnable: List[int]) -> int:
        try:
            want = next(it)
        except StopIteration:
            return runnable[0]
        return want if want in runnable else runnable[0]

    return choose


class DFS:
    """Stateless systematic exploration of all schedules of a re-executable scenario.

    ``execute(choose)`` must build the scenario from scratch, run it with the given
    ``choose`` callback and return anything.  Branching happens only where the driver
    reports >= 2 runnable tasks.  ``exhaustive`` is true iff the frontier was emptied.
    """

    def __init__(self, limit: int):
        self.limit = limit
        self.executions = 0
        self.exhaustive = False

    def explore(self, execute: Callable[[Callable[[List[int]], int]], Any]):
        stack: List[List[int]] = [[]]  # prefixes of *choice indices* (position in runnable list)
        while stack:
            if self.executions >= self.limit:
                return
            prefix = stack.pop()
            taken: List[int] = []
            widths: List[int] = []

            def choose(runnable: List[int], prefix=prefix, taken=taken, widths=widths) -> int:
                k = len(taken)
                pick = prefix[k] if k < len(prefix) else 0
                if pick >= len(runnable):
                    pick = 0
                taken.append(pick)
                widths.append(len(runnable))
                return runnable[pick]

            self.executions += 1
            yield execute(choose), tuple(taken)
            # schedule siblings for every choice point beyond the forced prefix
            for k in range(len(taken) - 1, len(prefix) - 1, -1):
                for alt in range(taken[k] + 1, widths[k]):
                    stack.append(taken[:k] + [alt])
        self.exhaustive = True
