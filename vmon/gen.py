"""Seeded generators and exhaustive enumerators of call specs (see tools.py)."""
from __future__ import annotations

import itertools
import random
from typing import Iterator, List, Optional

PREDS = ["lt1", "lt2", "lt3", "even", "true", "false", "truthy", "none_or_1", "zero_or_str"]
KEYS = [None, "half", "neg", "const", "keyitem"]
BINARY = ["add", "pickmax", "first", "second"]


def keys_seq(rng: random.Random, maxlen: int = 8, alphabet: Optional[int] = None, minlen: int = 0) -> List[int]:
    alphabet = alphabet or rng.choice([2, 3, 4])
    n = rng.randint(minlen, maxlen)
    return [rng.randrange(alphabet) for _ in range(n)]


def sorted_keys(rng: random.Random, reverse: bool, maxlen: int = 5, alphabet: int = 4, keyfn: Optional[str] = None) -> List[int]:
    ks = keys_seq(rng, maxlen, alphabet)
    if keyfn == "half":
        ks.sort(key=lambda k: k // 2, reverse=reverse)
    elif keyfn == "neg":
        ks.sort(key=lambda k: -k, reverse=reverse)
    elif keyfn == "const":
        pass
    elif keyfn == "keyitem":
        ks.sort(key=lambda k: k // 2, reverse=reverse)
    else:
        ks.sort(reverse=reverse)
    return ks


def islice_args(rng: random.Random) -> list:
    form = rng.choice([1, 2, 3])
    start = rng.choice([None, 0, 1, 2, 3, 4, 5])
    stop = rng.choice([None, 0, 1, 2, 3, 4, 5, 6, 9])
    step = rng.choice([None, 1, 2, 3])
    if form == 1:
        return [stop]
    if form == 2:
        return [start, stop]
    return [start, stop, step]


ITER_TOOL_NAMES = ["zip", "zip_strict", "map", "filter", "filter_none", "enumerate", "iter_sentinel", "accumulate",
                   "batched", "chain", "chain_from_iterable", "compress", "cycle", "dropwhile", "takewhile",
                   "filterfalse", "filterfalse_none", "islice", "pairwise", "starmap", "zip_longest", "merge"]


RAW_ANY_TOOLS = ("islice", "batched", "pairwise", "cycle", "enumerate", "chain_from_iterable", "filter_none",
                 "filterfalse_none", "compress")


def _iter_spec_with_raw(rng: random.Random, name: str, maxlen: int = 8) -> dict:
    """Random valid spec for iterator tool ``name`` (a name from ITER_TOOL_NAMES)."""
    spec = _iter_spec(rng, name, maxlen)
    if name in RAW_ANY_TOOLS and not spec.get("raw") and rng.random() < 0.12:
        # plain values incl. None / falsy ones: nothing but identity may serve as a "no item" marker
        spec["raw"] = True
        pool = [None, None, 0, False, "", 1, ["T"], ["Op", 1], ["Op", 2], ["Aw", 1], ["Aw", 2], ["La", 1], ["An", 1]]
        srcs = spec["srcs"]
        keep = 1 if name == "compress" else len(srcs)  # the selectors of compress stay numbers
        spec["srcs"] = [[rng.choice(pool) for _ in src] if i < keep else src for i, src in enumerate(srcs)]
    return spec


def _iter_spec(rng: random.Random, name: str, maxlen: int = 8) -> dict:
    if name in ("zip", "zip_strict", "zip_longest", "chain", "map"):
        n = rng.choice([1, 2, 2, 3, 4])
        if name == "chain" and rng.random() < 0.1:
            n = 0
        if rng.random() < 0.4:  # force nearly-equal lengths: the interesting corner for strict/longest
            base = rng.randint(0, min(4, maxlen))
            srcs = [[rng.randrange(3) for _ in range(max(0, base + rng.choice([0, 0, 0, 1, -1])))] for _ in range(n)]
        else:
            srcs = [keys_seq(rng, min(maxlen, 5)) for _ in range(n)]
        spec = {"tool": name, "srcs": srcs, "fns": [], "params": {}}
        if name != "map" and rng.random() < 0.2:
            # plain values incl. None / falsy ones: nothing but identity may serve as "no item" marker
            spec["raw"] = True
            pool = [None, None, 0, False, "", 1, ["T"], ["Op", 1], ["Op", 2], ["Aw", 1], ["Aw", 2], ["La", 1], ["An", 1]]
            spec["srcs"] = [[rng.choice(pool) for _ in src] for src in srcs]
        if name == "map":
            spec["fns"] = [rng.choice(["mk", "mk", "mk", "tup", "none_or_item", "falsy_result", "lookalike_result", "later_payload"])]
        if name == "zip_longest" and rng.random() < 0.5:
            spec["params"]["fillvalue"] = rng.choice([["item", 7, "fill"], ["none"], ["raw", 0], ["raw", ["Aw", 8]], ["raw", ["La", 8]],
                                                       ["raw", ["An", 8]]])
        return spec
    if name in ("filter", "dropwhile", "takewhile", "filterfalse") and rng.random() < 0.15:
        # a predicate that is only PARTIALLY defined (x < 2 raises for None / a string / a tuple): it fails exactly
        # for the items the stdlib tool asks it about -- not for items behind the point where the tool stops asking
        pool = [0, 1, 2, 3, 5, 1, 0, None, "tail", ["T", 1]]
        return {"tool": name, "raw": True, "srcs": [raw_seq(rng, pool, maxlen)],
                "fns": [rng.choice(["lt1", "lt2", "lt3", "even"])], "params": {}}
    if name in ("filter", "dropwhile", "takewhile", "filterfalse"):
        return {"tool": name, "srcs": [keys_seq(rng, maxlen, rng.choice([2, 3, 4, 5]))], "fns": [rng.choice(PREDS)], "params": {}}
    if name == "filter_none":
        return {"tool": "filter", "srcs": [keys_seq(rng, maxlen, 3)], "fns": [None], "params": {}}
    if name == "filterfalse_none":
        return {"tool": "filterfalse", "srcs": [keys_seq(rng, maxlen, 3)], "fns": [None], "params": {}}
    if name == "enumerate":
        params = {} if rng.random() < 0.4 else {"start": rng.choice([0, 1, -3, 10 ** 20])}
        return {"tool": name, "srcs": [keys_seq(rng, maxlen)], "fns": [], "params": params}
    if name == "iter_sentinel":
        ks = keys_seq(rng, maxlen, 4)
        kind = rng.choice(["equal", "equal", "absent", "identical", "nan", "touchy", "onesided", "touchy_identical", "none_sentinel"])
        spec = {"tool": name, "srcs": [ks], "fns": ["nullary"], "params": {}}
        if kind == "none_sentinel":
            # ``iter(queue.get, None)``: the sentinel is None - compared like any other sentinel (``None == value`` falls
            # through to the VALUE's own ``__eq__``: a value that considers itself equal to None ends the iteration)
            spec["raw"] = True
            spec["srcs"] = [[rng.choice([0, 1, "", ["An", 1], ["L"], ["Eq", "always", 1], ["Eq", "never", 2]]) for _ in ks] + [None]]
            spec["params"]["sentinel"] = ["none"]
            return spec
        if kind == "touchy_identical":
            # the callable hands back the very sentinel OBJECT, and that object cannot be compared at all (its ``==`` fails,
            # like the ambiguous truth value of an array): identity settles it before any comparison is attempted
            exc = rng.choice(["ValueError", "KeyError", "LookupError", "RuntimeError"])
            spec["raw"] = True
            spec["srcs"] = [[rng.choice([0, 1, 2]) for _ in ks]]
            spec["params"]["sentinel"] = ["raw", ["X", 9, exc]]
            spec["params"]["identical_at"] = rng.randrange(max(1, len(ks)))
            return spec
        if kind == "touchy":
            # an item whose comparison with the sentinel FAILS (ValueError, KeyError, ...): the iteration ends with
            # that exception, right there
            exc = rng.choice(["ValueError", "ValueError", "KeyError", "LookupError", "RuntimeError"])
            spec["raw"] = True
            spec["srcs"] = [[rng.choice([["X", 1, None], ["X", 2, None], ["X", 3, exc], ["X", 5, None]]) for _ in ks]]
            spec["params"]["sentinel"] = ["raw", ["X", rng.choice([5, 9]), None]]
            return spec
        if kind == "onesided":
            # equality that depends on which operand is asked: the builtin evaluates ``sentinel == value``
            spec["raw"] = True
            mine, theirs = rng.choice([("always", "never"), ("never", "always")])
            spec["srcs"] = [[rng.choice([["Eq", theirs, i], ["Eq", theirs, i], 7]) for i, _ in enumerate(ks)]]
            spec["params"]["sentinel"] = ["raw", ["Eq", mine, 99]]
            return spec
        if kind == "equal":
            spec["params"]["sentinel"] = ["item", rng.randrange(4), "sentinel"]
        elif kind == "absent":
            spec["params"]["sentinel"] = ["item", 99, "sentinel"]
        elif kind == "identical":
            spec["params"]["sentinel"] = ["item", rng.randrange(4), "sentinel"]
            spec["params"]["identical_at"] = rng.randrange(max(1, len(ks)))
        else:
            spec["raw"] = True
            spec["srcs"] = [[rng.choice([0, 1, 2]) for _ in ks]]
            spec["params"]["sentinel"] = ["raw", ["f", "nan"]]
            spec["params"]["identical_at"] = rng.randrange(max(1, len(ks)))
        return spec
    if name == "accumulate":
        spec = {"tool": name, "srcs": [keys_seq(rng, maxlen)], "fns": [rng.choice([None, "add", "pickmax", "first", "second"])],
                "params": {}}
        if rng.random() < 0.15:
            # None / falsy values as items, as initial value and as results of the reduction
            spec["raw"] = True
            spec["srcs"] = [[rng.choice([None, 0, 1, 2, 2, ""]) for _ in range(rng.randint(0, min(maxlen, 6)))]]
            spec["fns"] = [rng.choice(["none_if_2", "retnone", "zero_if_1", "second", "first"])]
            if rng.random() < 0.3:
                # (an initial value is a value: also one that happens to be awaitable - with the reductions that merely
                # pass values along it travels untouched)
                spec["params"]["initial"] = ["raw", rng.choice([0, "", 1, ["Aw", 7], ["La", 7]])]
                if spec["params"]["initial"][1] == ["Aw", 7] and spec["fns"] == ["first"]:
                    # (a callable that RETURNS the awaitable value is, by the library's documented rule, an
                    # asynchronous callable - its result is awaited; that is not the case looked at here)
                    spec["fns"] = ["second"]
            return spec
        if rng.random() < 0.2:
            # mutable items: running totals must be new objects, the inputs untouched
            spec["raw"] = True
            spec["srcs"] = [[["L", rng.randrange(3)] for _ in range(rng.randint(0, min(maxlen, 5)))]]
            spec["fns"] = [rng.choice([None, None, "add"])]
            if rng.random() < 0.4:
                spec["params"]["initial"] = ["raw", ["L", 9]]
            return spec
        r = rng.random()
        if r < 0.35:
            spec["params"]["initial"] = ["item", rng.randrange(4), "init"]
        elif r < 0.45:
            spec["params"]["initial"] = ["none"]
        return spec
    if name == "batched":
        spec = {"tool": name, "srcs": [keys_seq(rng, maxlen)], "fns": [], "params": {"n": rng.randint(1, 5)}}
        if rng.random() < 0.5:
            spec["params"]["strict"] = rng.random() < 0.7
        return spec
    if name == "chain_from_iterable":
        n = rng.choice([0, 1, 2, 3, 4])
        return {"tool": name, "srcs": [keys_seq(rng, 4) for _ in range(n)], "fns": [], "params": {}}
    if name == "compress":
        return {"tool": name, "srcs": [keys_seq(rng, maxlen), keys_seq(rng, maxlen, 2)], "fns": [], "params": {}}
    if name == "cycle":
        return {"tool": name, "srcs": [keys_seq(rng, 4)], "fns": [], "params": {}, "steps": rng.randint(0, 11)}
    if name == "islice":
        return {"tool": name, "srcs": [keys_seq(rng, maxlen)], "fns": [], "params": {"args": islice_args(rng)}}
    if name == "pairwise":
        return {"tool": name, "srcs": [keys_seq(rng, maxlen)], "fns": [], "params": {}}
    if name == "starmap" and rng.random() < 0.15:
        # argument "tuples" of other kinds: a dict (iterated over its KEYS, like any iterable), a string, a one-shot
        # iterator, a generator, a list - ``function(*item)`` whatever the item is
        # (... or a record that offers BOTH iteration protocols: it is unpacked like ``function(*item)`` does - synchronously)
        pool = [["Dc", "a", 1, "b", 2], ["Dc", "x", 1], ["Dc"], ["Dc", 1, 2, 3, 4], "ab", "", ["It", 1, 2], ["Gn", 3],
                ["L", 1, 2, 3], ["T"], ["T", 0], ["Du", 1, 2], ["Du", 3], ["Du"]]
        return {"tool": name, "raw": True, "srcs": [raw_seq(rng, pool, min(maxlen, 5))], "fns": ["tup"], "params": {}}
    if name == "starmap":
        n = rng.randint(0, min(maxlen, 5))
        return {"tool": name, "srcs": [[[rng.randrange(3) for _ in range(rng.randint(0, 3))] for _ in range(n)]],
                "fns": ["mk"], "params": {}}
    if name == "merge" and rng.random() < 0.08:
        # items whose comparison fails (ValueError, KeyError, ...; one type per input): the merge ends with that
        # failure after the same items
        exc = rng.choice(["ValueError", "KeyError", "LookupError", "RuntimeError"])
        n = rng.choice([2, 2, 3])
        srcs = []
        for _ in range(n):
            ks = sorted(rng.randrange(6) for _ in range(rng.randint(0, 4)))
            srcs.append([["X", k, exc if rng.random() < 0.2 else None] for k in ks])
        return {"tool": name, "raw": True, "srcs": srcs, "fns": [rng.choice([None, "ident"])], "params": {}}
    if name == "merge":
        n = rng.choice([0, 1, 2, 2, 3, 3, 4])
        reverse = rng.random() < 0.5
        keyfn = rng.choice(KEYS)
        srcs = [sorted_keys(rng, reverse, 5, rng.choice([2, 3, 4]), keyfn) for _ in range(n)]
        params = {"reverse": True} if reverse else {}
        return {"tool": name, "srcs": srcs, "fns": [keyfn], "params": params}
    raise ValueError(name)


def enum_length_vectors(maxn: int = 4, maxlen: int = 3) -> Iterator[List[int]]:
    for n in range(1, maxn + 1):
        for vec in itertools.product(range(maxlen + 1), repeat=n):
            yield list(vec)


def enum_iter_specs(small: bool = False) -> Iterator[dict]:
    """The enumerated sub-spaces of C01/C05 (do not depend on the seed)."""
    maxlen = 5 if small else 7
    # islice: every argument tuple x every length
    for n in range(0, maxlen + 1):
        ks = list(range(n))
        for stop in [None, 0, 1, 2, 3, 4, 5, 6]:
            yield {"tool": "islice", "srcs": [ks], "fns": [], "params": {"args": [stop]}}
            for start in [None, 0, 1, 2, 3, 4]:
                yield {"tool": "islice", "srcs": [ks], "fns": [], "params": {"args": [start, stop]}}
                for step in [None, 1, 2, 3]:
                    yield {"tool": "islice", "srcs": [ks], "fns": [], "params": {"args": [start, stop, step]}}
    # batched
    for n in range(0, maxlen + 1):
        for size in range(1, 6):
            for strict in (None, False, True):
                params = {"n": size}
                if strict is not None:
                    params["strict"] = strict
                yield {"tool": "batched", "srcs": [[k % 3 for k in range(n)]], "fns": [], "params": params}
    # no iterables at all
    for tool in ("zip", "zip_strict", "zip_longest", "chain", "chain_from_iterable", "merge"):
        yield {"tool": tool, "srcs": [], "fns": [None] if tool == "merge" else [], "params": {}}
    yield {"tool": "zip_longest", "srcs": [], "fns": [], "params": {"fillvalue": ["item", 9, "fill"]}}
    # one single-use iterator passed as two (or three) arguments: the order in which a tool polls its arguments
    # decides which items land where
    for n in (0, 1, 2, 3, 4, 5, 6):
        ks = [k % 3 for k in range(n)]
        for tool in ("zip", "zip_strict", "zip_longest", "chain", "compress", "merge"):
            yield {"tool": tool, "srcs": [ks, []], "fns": [None] if tool == "merge" else [], "params": {}, "same": [[0, 1]]}
        yield {"tool": "map", "srcs": [ks, []], "fns": ["mk"], "params": {}, "same": [[0, 1]]}
        yield {"tool": "zip", "srcs": [ks, [], []], "fns": [], "params": {}, "same": [[0, 1], [0, 2]]}
        yield {"tool": "zip_longest", "srcs": [ks, [7, 8], []], "fns": [], "params": {}, "same": [[0, 2]]}
    # length vectors
    for vec in enum_length_vectors(3 if small else 4, 3):
        srcs = [[(i + s) % 2 for i in range(n)] for s, n in enumerate(vec)]
        for tool in ("zip", "zip_strict", "zip_longest", "chain"):
            yield {"tool": tool, "srcs": srcs, "fns": [], "params": {}}
        yield {"tool": "map", "srcs": srcs, "fns": ["mk"], "params": {}}
        yield {"tool": "chain_from_iterable", "srcs": srcs, "fns": [], "params": {}}
        # merge: all-equal keys (pure tie order) and increasing keys
        for reverse in (False, True):
            params = {"reverse": True} if reverse else {}
            yield {"tool": "merge", "srcs": [[1] * n for n in vec], "fns": [None], "params": params}
            inc = [sorted([(i + s) % 3 for i in range(n)], reverse=reverse) for s, n in enumerate(vec)]
            yield {"tool": "merge", "srcs": inc, "fns": [None], "params": params}
            yield {"tool": "merge", "srcs": inc, "fns": ["const"], "params": params}


# ---------------------------------------------------------------------------
# aggregations
# ---------------------------------------------------------------------------

AGG_NAMES = ["all", "any", "sum", "min", "max", "list", "tuple", "set", "dict", "sorted", "reduce", "nlargest",
             "nsmallest"]

RAW_EXACT = [0, 1, 2, -1, True, False, 0.5, 2.0, -0.0, ["F", 1, 2], ["F", 3, 1]]
RAW_INEXACT = [["f", "0.1"], ["f", "0.2"], ["f", "0.3"], ["f", "1e16"], ["f", "-1e16"], ["f", "1.0"], ["f", "1e-16"], 3,
               ["f", "inf"], ["f", "-inf"], ["f", "1e308"], ["f", "-0.0"], ["f", "1e308"]]
RAW_UNORDERABLE = [0, 1, "a", "b", None, ["T", 1, 2], 2.5]
RAW_UNHASHABLE = [0, 1, ["L", 1], "a", ["T", 1, ["L", 2]]]
RAW_TOUCHY = [["X", 1, None], ["X", 2, None], ["X", 0, None], ["X", 1, None], ["X", 1, "ValueError"], ["X", 3, "KeyError"],
              ["X", 2, "AttributeError"], ["X", 0, "LookupError"], ["X", 2, "RuntimeError"]]
RAW_NAN = [["f", "nan"], 1, 2, 0.5, ["f", "nan"]]


def raw_seq(rng: random.Random, pool: list, maxlen: int = 6) -> list:
    return [rng.choice(pool) for _ in range(rng.randint(0, maxlen))]


def _agg_spec(rng: random.Random, name: str, maxlen: int = 8) -> dict:
    cls = rng.choice(["items", "items", "items", "exact", "inexact", "unorderable", "nan", "touchy"])
    spec: dict = {"tool": name, "srcs": [], "fns": [], "params": {}}
    if name in ("min", "max", "sorted", "nlargest", "nsmallest") and rng.random() < 0.08:
        # values ordered by ``<`` alone (no __eq__): ties are "neither smaller nor equal"; first-wins / stability
        spec["raw"] = True
        spec["srcs"] = [[["Lt", rng.randrange(3), i] for i in range(rng.randint(0, min(maxlen, 6)))]]
        spec["fns"] = [rng.choice([None, None, "ident"])]
        if name == "sorted" and rng.random() < 0.5:
            spec["params"]["reverse"] = True
        if name in ("nlargest", "nsmallest"):
            spec["params"]["n"] = rng.randint(0, len(spec["srcs"][0]) + 1)
        return spec
    if cls == "touchy":
        if name in ("min", "max", "sorted", "nlargest", "nsmallest"):
            # items whose comparison fails with ValueError / KeyError / ...: the aggregation fails the same way
            spec["raw"] = True
            # one failure type per input: WHICH comparison an algorithm makes first is its own business, so with
            # two different failure types in one input even correct implementations may legitimately disagree
            exc = rng.choice(["ValueError", "KeyError", "AttributeError", "LookupError", "RuntimeError"])
            pool = [v for v in RAW_TOUCHY if v[2] is None] + [["X", 1, exc], ["X", 3, exc]]
            spec["srcs"] = [raw_seq(rng, pool, min(maxlen, 5))]
            spec["fns"] = [rng.choice([None, None, "ident"])]
            if name == "sorted" and rng.random() < 0.5:
                spec["params"]["reverse"] = True
            if name in ("nlargest", "nsmallest"):
                spec["params"]["n"] = rng.choice([0, 1, 1, 1, 2, 3])
            if name in ("min", "max") and rng.random() < 0.3:
                spec["params"]["default"] = ["none"]
            return spec
        cls = "items"
    if name in ("all", "any"):
        if cls in ("items", "unorderable", "nan"):
            spec["srcs"] = [keys_seq(rng, maxlen, 2)]
        else:
            spec["raw"] = True
            spec["srcs"] = [raw_seq(rng, [0, 1, "", "x", None, ["L"], ["L", 0], 0.0, ["f", "nan"]], maxlen)]
        return spec
    if name == "sum":
        r = rng.random()
        if cls == "items":
            spec["srcs"] = [keys_seq(rng, maxlen)]
            spec["params"]["start"] = ["item", rng.randrange(3), "start"]
        elif r < 0.25:  # list-of-lists with list start
            spec["raw"] = True
            spec["srcs"] = [[["L", rng.randrange(3)] for _ in range(rng.randint(0, 4))]]
            spec["params"]["start"] = ["raw", ["L", 9]]
        elif r < 0.35:
            spec["raw"] = True
            spec["srcs"] = [[rng.choice(["a", "b"]) for _ in range(rng.randint(0, 3))]]
            spec["params"]["start"] = ["raw", ""]
        elif r < 0.45:  # list start, members of other sequence types: + refuses what += would accept
            spec["raw"] = True
            spec["srcs"] = [[rng.choice([["L", 1], ["T", 2], "ab", ["L"], ["T"]]) for _ in range(rng.randint(0, 4))]]
            spec["params"]["start"] = ["raw", ["L"]]
        elif r < 0.5:
            # the running total BECOMES text along the way (an item whose reflected addition answers with a str, a start
            # object whose addition does): only a str START is refused by the builtin, nothing about later totals
            spec["raw"] = True
            spec["srcs"] = [[["Rs", "w"]] + [rng.choice(["x", "y", ""]) for _ in range(rng.randint(0, 3))]]
            if rng.random() < 0.4:
                spec["params"]["start"] = ["raw", ["Rs", "s"]]
        elif r < 0.55:  # objects for which 0 + x is x itself and += works in place
            spec["raw"] = True
            spec["srcs"] = [[["V", rng.randrange(4)] for _ in range(rng.randint(0, 4))]]
            if rng.random() < 0.3:
                spec["params"]["start"] = ["raw", ["V", 0]]
        else:
            spec["raw"] = True
            pool = {"exact": RAW_EXACT, "inexact": RAW_INEXACT, "unorderable": RAW_UNORDERABLE, "nan": RAW_NAN}.get(cls, RAW_EXACT)
            spec["srcs"] = [raw_seq(rng, pool, maxlen)]
            if rng.random() < 0.4:
                spec["params"]["start"] = ["raw", rng.choice([0, 1, 0.5, ["F", 1, 3], ["f", "0.1"], ["f", "-0.0"], ["f", "inf"]])]
        return spec
    if name in ("min", "max"):
        if cls in ("items", "inexact"):
            spec["srcs"] = [keys_seq(rng, maxlen)]
            spec["fns"] = [rng.choice(KEYS + ["samenan"])]
        else:
            spec["raw"] = True
            pool = {"exact": RAW_EXACT, "unorderable": RAW_UNORDERABLE, "nan": RAW_NAN}[cls]
            spec["srcs"] = [raw_seq(rng, pool, maxlen if rng.random() < 0.7 else 1)]
            # keys that are not defined for every item (-"a", None // 2) or fail outright: the builtin calls the
            # key for EVERY item, also for the only one, and fails the same way
            spec["fns"] = [rng.choice([None, None, "ident", "neg", "half", "failkey", "nonekey", "dictkey"])]
        r = rng.random()
        if r < 0.3 or (not spec["srcs"][0] and r < 0.7):
            # (a default is handed back AS IS - also one that happens to be awaitable, or merely looks like it)
            spec["params"]["default"] = rng.choice([["item", 1, "default"], ["raw", ["L", 5]], ["none"], ["raw", ["Aw", 9]], ["raw", ["La", 9]], ["raw", ["An", 9]], ["raw", ["Op", 9]]])
        return spec
    if name in ("list", "tuple"):
        spec["srcs"] = [keys_seq(rng, maxlen)]
        return spec
    if name == "set":
        if cls in ("unorderable", "nan", "inexact") and rng.random() < 0.5:
            spec["raw"] = True
            spec["srcs"] = [raw_seq(rng, RAW_UNHASHABLE, maxlen)]
        else:
            spec["srcs"] = [keys_seq(rng, maxlen)]
        return spec
    if name == "dict":
        if cls in ("unorderable", "nan") and rng.random() < 0.7:
            spec["raw"] = True
            pool = [["T", 1, 2], ["T", 1], ["T", 1, 2, 3], ["T", ["L", 1], 2], 5, "ab", "abc", ["L", 3, 4], ["T", 2, 3],
                    # pairs (and non-pairs) that are one-shot iterators / generators: iterable, but neither sized
                    # nor indexable
                    ["It", 4, 5], ["It", 1, 2, 3], ["It", 1], ["It"], ["Gn", 6, 7], ["Gn", 1], ["Gn", 1, 2, 3], "", ["T"], ["L"]]
            spec["srcs"] = [raw_seq(rng, pool, 5)]
        else:
            n = rng.randint(0, maxlen)
            spec["srcs"] = [[[rng.randrange(3), rng.randrange(5)] for _ in range(n)]]
        if rng.random() < 0.3:
            spec["params"]["kwargs"] = {name: rng.randrange(5) for name in rng.sample(["a", "b", "c"], rng.randint(1, 2))}
        return spec
    if name in ("sorted", "min", "max", "nlargest", "nsmallest") and cls == "exact" and rng.random() < 0.5:
        # values that are EQUAL across types (1 == 1.0 == True, 0 == -0.0 == False) under a key that tells them apart:
        # the key is computed for every item, equal to an earlier one or not
        spec["raw"] = True
        spec["srcs"] = [raw_seq(rng, [0, 1, 2, True, False, 1.0, 2.0, 0.0, -0.0, ["F", 1, 1], ["F", 2, 1]], maxlen)]
        spec["fns"] = ["typekey"]
        if name == "sorted" and rng.random() < 0.5:
            spec["params"]["reverse"] = True
        if name in ("nlargest", "nsmallest"):
            spec["params"]["n"] = rng.randint(0, len(spec["srcs"][0]) + 1)
        return spec
    if name == "sorted":
        if cls in ("items", "inexact", "exact"):
            spec["srcs"] = [keys_seq(rng, maxlen)]
            spec["fns"] = [rng.choice(KEYS + ["samenan", "selfunequal", "sameraiser"])]
        else:
            spec["raw"] = True
            spec["srcs"] = [raw_seq(rng, {"unorderable": RAW_UNORDERABLE, "nan": RAW_NAN}[cls], maxlen if rng.random() < 0.7 else 1)]
            spec["fns"] = [rng.choice([None, None, "ident", "neg", "half", "failkey", "nonekey", "dictkey"])]
        if rng.random() < 0.5:
            spec["params"]["reverse"] = True
        return spec
    if name == "reduce":
        if rng.random() < 0.15:
            spec["raw"] = True
            spec["srcs"] = [[rng.choice([None, 0, 1, 2, 2, ""]) for _ in range(rng.randint(0, min(maxlen, 6)))]]
            spec["fns"] = [rng.choice(["none_if_2", "retnone", "zero_if_1", "second", "first"])]
            if rng.random() < 0.4:
                spec["params"]["initial"] = rng.choice([["raw", 0], ["raw", ""], ["none"], ["raw", ["Aw", 7]], ["raw", ["La", 7]]])
                if spec["params"]["initial"] == ["raw", ["Aw", 7]] and spec["fns"] == ["first"]:
                    spec["fns"] = ["second"]  # (see accumulate above: a callable returning the awaitable is asynchronous)
            return spec
        spec["srcs"] = [keys_seq(rng, maxlen)]
        spec["fns"] = [rng.choice(BINARY)]
        r = rng.random()
        if r < 0.4:
            spec["params"]["initial"] = ["item", rng.randrange(3), "init"]
        elif r < 0.5:
            spec["params"]["initial"] = ["none"]
        return spec
    if name in ("nlargest", "nsmallest"):
        if cls in ("items", "inexact", "exact", "nan"):
            # (no NaN values here: with keys that are not totally ordered WHICH n items are "the smallest" is an
            # accident of the algorithm - heapq sorts when n >= len and uses a heap otherwise - not a result to match)
            spec["srcs"] = [keys_seq(rng, maxlen)]
            # (one shared key object that is not equal to itself IS decided: records tie by identity, first come wins)
            spec["fns"] = [rng.choice(KEYS + ["samenan", "selfunequal", "sameraiser"])]
        else:
            # mixed types that make the comparison fail: the aggregation fails like its counterpart
            spec["raw"] = True
            pool = RAW_UNORDERABLE
            spec["srcs"] = [raw_seq(rng, pool, maxlen if rng.random() < 0.8 else 1)]
            spec["fns"] = [rng.choice([None, None, None, None, "ident", "ident", "neg", "half", "failkey", "nonekey", "dictkey"])]
        spec["params"]["n"] = rng.randint(0, len(spec["srcs"][0]) + 2)
        return spec
    raise ValueError(name)


def has_tie(spec: dict) -> bool:
    seen = set()
    for src in spec["srcs"]:
        for k in src:
            h = repr(k)
            if h in seen:
                return True
            seen.add(h)
    return False


def shape_class(spec: dict) -> tuple:
    lens = tuple(len(s) for s in spec["srcs"])
    return (len(lens), min(lens) if lens else 0, max(lens) if lens else 0, len(set(lens)) > 1)


def _strict_flags(rng: random.Random, spec: dict) -> dict:
    if spec["tool"] == "zip_strict" and rng.random() < 0.3:
        spec["params"]["strict_flag"] = rng.choice([1, "obj"])
    return spec


def _same_objects(rng: random.Random, spec: dict) -> dict:
    # in some inputs every occurrence of a key is the very same OBJECT (a repeated sentinel, one record listed twice):
    # each occurrence is an item like any other
    if not spec.get("raw") and spec["tool"] not in ("starmap", "dict") and rng.random() < 0.12:
        spec["same_objects"] = True
    return spec


def agg_spec(rng: random.Random, name: str, maxlen: int = 8) -> dict:
    return _same_objects(rng, _agg_spec(rng, name, maxlen))


def iter_spec(rng: random.Random, name: str, maxlen: int = 8) -> dict:
    return _strict_flags(rng, _same_objects(rng, _iter_spec_with_raw(rng, name, maxlen)))
