"""Reach evidence: which lines of the anchored source files were executed.

Uses ``sys.monitoring`` LINE events that return DISABLE after the first hit, so the
steady-state cost is ~0.  Purely evidence; never part of a verdict.
"""
from __future__ import annotations

import os
import sys
from typing import Dict, Optional, Sequence

TOOL_ID = 3


class Reach:
    def __init__(self, anchors: Optional[Sequence[str]] = None):
        import asyncstdlib

        self.root = os.path.dirname(asyncstdlib.__file__)
        self.files = set(os.path.join(self.root, a) for a in (anchors or [])) or None
        self.hits: Dict[str, set] = {}

    def start(self) -> None:
        mon = sys.monitoring
        mon.use_tool_id(TOOL_ID, "vmon-reach")
        root = self.root
        files = self.files
        hits = self.hits
        DISABLE = mon.DISABLE

        def on_line(code, line):
            fn = code.co_filename
            if fn.startswith(root) and (files is None or fn in files):
                hits.setdefault(fn, set()).add(line)
            return DISABLE

        mon.register_callback(TOOL_ID, mon.events.LINE, on_line)
        events = mon.events.LINE
        if os.environ.get("REACH_BRANCH"):
            # diagnostic (tools/unreached.py): which destinations of each conditional jump were taken
            branches = self.branches = {}

            def on_branch(code, src, dst):
                fn = code.co_filename
                if not fn.startswith(root):
                    return DISABLE
                seen = branches.setdefault((fn, code.co_qualname, code.co_firstlineno, src), set())
                seen.add(dst)
                return DISABLE if len(seen) >= 2 else None

            mon.register_callback(TOOL_ID, mon.events.BRANCH, on_branch)
            events |= mon.events.BRANCH
        mon.set_events(TOOL_ID, events)

    def report(self) -> dict:
        out = {}
        if getattr(self, "branches", None):
            out["__branches__"] = {"lines": [f"{os.path.basename(k[0])}|{k[1]}|{k[2]}|{k[3]}|{d}"
                                             for k, v in self.branches.items() for d in v], "total": 0}
        for fn, lines in self.hits.items():
            total = _code_lines(fn)
            out[os.path.basename(fn)] = {"lines": sorted(lines & total), "total": len(total)}
        return out


def _code_lines(path: str) -> set:
    """Lines that carry code (per compiled code objects)."""
    with open(path) as fh:
        src = fh.read()
    lines: set = set()
    stack = [compile(src, path, "exec")]
    while stack:
        code = stack.pop()
        for _, _, line in code.co_lines():
            if line is not None:
                lines.add(line)
        for const in code.co_consts:
            if hasattr(const, "co_code"):
                stack.append(const)
    return lines
