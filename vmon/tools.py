"""Table of every iterator tool / aggregation with its stdlib twin, and the
differential engine that runs one call on both sides and records the event logs.

A *spec* is a JSON-able dict::

    {"tool": name, "srcs": [[key, ...], ...], "fns": [impl-name|None, ...], "params": {...},
     "raw": bool}

``raw`` sources hold encoded plain python values (see ``decode``) instead of Item keys.
"""
from __future__ import annotations

import builtins
import functools
import heapq
import itertools
import math
from fractions import Fraction
from typing import Any, Callable, Dict, List, Optional

import asyncstdlib as A

from .loop import CTX, drive, BudgetExceeded
from .probes import (Item, canon, SrcState, Plan, NOPLAN, make_source, SyncSrc, sync_gen, FnState, make_fn)

MISSING = object()


# ---------------------------------------------------------------------------
# values
# ---------------------------------------------------------------------------

class Vec:
    """Number-like with the common ``__radd__`` idiom (0 + v is v itself) and an in-place ``__iadd__``."""

    def __init__(self, n: Any):
        self.n = n

    def __repr__(self) -> str:
        return f"Vec({self.n!r})"

    def __add__(self, other: Any) -> "Vec":
        if isinstance(other, Vec):
            return Vec(self.n + other.n)
        return NotImplemented

    def __radd__(self, other: Any) -> "Vec":
        if other == 0:
            return self
        return NotImplemented

    def __iadd__(self, other: Any) -> "Vec":
        if isinstance(other, Vec):
            self.n += other.n
            return self
        return NotImplemented

    def __eq__(self, other: Any) -> bool:
        return isinstance(other, Vec) and self.n == other.n

    __hash__ = None  # type: ignore[assignment]


class Touchy:
    """Ordered by ``k``; comparing a flagged instance fails with a standard exception that is NOT TypeError
    (like the ambiguous truth value of an array, or a key that cannot be converted)."""

    _EXC = {"ValueError": ValueError, "KeyError": KeyError, "AttributeError": AttributeError, "LookupError": LookupError,
            "RuntimeError": RuntimeError}

    def __init__(self, k: Any, exc: Any = None):
        self.k, self.exc = k, exc

    def __repr__(self) -> str:
        return f"Touchy({self.k!r}, {self.exc!r})"

    def _cmp(self, other: Any, op: Any) -> Any:
        if not isinstance(other, Touchy):
            return NotImplemented
        for x in (self, other):
            if x.exc:
                raise self._EXC[x.exc](f"comparison of {x!r}")
        return op(self.k, other.k)

    def __lt__(self, other: Any) -> Any:
        return self._cmp(other, lambda a, b: a < b)

    def __gt__(self, other: Any) -> Any:
        return self._cmp(other, lambda a, b: a > b)

    def __le__(self, other: Any) -> Any:
        return self._cmp(other, lambda a, b: a <= b)

    def __ge__(self, other: Any) -> Any:
        return self._cmp(other, lambda a, b: a >= b)

    def __eq__(self, other: Any) -> Any:
        return self._cmp(other, lambda a, b: a == b)

    def __hash__(self) -> int:
        return hash(self.k)


class OneSidedEq:
    """Equality that only looks at ITS OWN answer: ``always`` claims to equal everything, ``never`` nothing.
    Which operand of ``==`` is asked first then decides the outcome (the builtins ask the sentinel / the stored
    key first, e.g. ``iter(callable, sentinel)`` evaluates ``sentinel == value``)."""

    def __init__(self, answer: str, k: Any):
        self.answer, self.k = answer, k

    def __repr__(self) -> str:
        return f"OneSidedEq({self.answer!r}, {self.k!r})"

    def __eq__(self, other: Any) -> Any:
        return self.answer == "always"

    __hash__ = None  # type: ignore[assignment]


class LtOnly:
    """Ordered by ``<`` alone (the one operator sorting needs): no ``__eq__`` of its own, so two instances of equal
    rank are neither smaller than each other nor ``==`` - a strict weak order, in which "the first of several equal
    ones" and stability are well defined."""

    def __init__(self, k: Any, tag: Any = None):
        self.k, self.tag = k, tag

    def __lt__(self, other: Any) -> Any:
        if not isinstance(other, LtOnly):
            return NotImplemented
        return self.k < other.k

    def __repr__(self) -> str:
        return f"LtOnly({self.k!r}, {self.tag!r})"


class Opaque:
    """A payload the tools have no business looking INTO: its truth value, equality, hash and length all raise.
    Tools that merely pass items along (zip, enumerate, islice, batched, chain, tee, ...) never notice; the few that
    do ask (filter(None, ...), compress selectors, all/any) fail exactly like their counterparts."""

    def __init__(self, k: Any):
        self.k = k

    def __repr__(self) -> str:
        return f"Opaque({self.k!r})"

    def _refuse(self, *args: Any) -> Any:
        raise ValueError(f"{self!r} was inspected")

    __bool__ = __eq__ = __ne__ = __hash__ = __len__ = __lt__ = __gt__ = _refuse  # type: ignore[assignment]


class AwaitablePayload:
    """An item that happens to be awaitable (a job, a future kept in a collection): payload, not something the user
    handed over as an awaitable.  Being awaited is reported as a foreign action."""

    def __init__(self, k: Any):
        self.k = k

    def __repr__(self) -> str:
        return f"AwaitablePayload({self.k!r})"

    def __await__(self) -> Any:
        from .loop import CTX as _ctx
        _ctx.foreign.append(f"the library awaited the payload item {self!r}")
        return ("what awaiting the payload gives", self.k)  # (plain: an "await until plain" loop ends here)
        yield  # pragma: no cover


class DualRecord:
    """A record offering BOTH iteration protocols: iterated synchronously it gives its fields; its asynchronous
    iteration is something else (a stream of audit rows) and nobody's business when the record is merely unpacked."""

    def __init__(self, fields: Any):
        self.fields = fields

    def __iter__(self) -> Any:
        return builtins.iter(self.fields)

    def __aiter__(self) -> Any:
        from .loop import CTX as _ctx
        _ctx.foreign.append(f"the record {self.fields!r} was iterated asynchronously instead of being unpacked")

        async def rows() -> Any:
            for field in self.fields:
                yield ("row", field)

        return rows()

    def __repr__(self) -> str:
        return f"DualRecord{self.fields!r}"


class TextOnAdd:
    """An object whose addition (either side) answers with TEXT: ``0 + TextOnAdd("w")`` is ``"w"``."""

    def __init__(self, text: str):
        self.text = text

    def __add__(self, other: Any) -> Any:
        return self.text + (other if isinstance(other, str) else "")

    def __radd__(self, other: Any) -> Any:
        return (other if isinstance(other, str) else "") + self.text

    def __repr__(self) -> str:
        return f"TextOnAdd({self.text!r})"


class Lookalike:
    """A plain value that merely EXPOSES an ``__await__`` attribute (set on the instance: a proxy, a stub, a record
    with that field): ``await`` looks the slot up on the TYPE, so this is not awaitable - a result / item like any
    other.  Calling the attribute is reported as a foreign action."""

    def __init__(self, k: Any):
        self.k = k
        self.__await__ = self._touched

    def _touched(self, *args: Any) -> Any:
        from .loop import CTX as _ctx
        _ctx.foreign.append(f"the library called __await__ of the non-awaitable value {self!r}")
        return builtins.iter(())

    def __repr__(self) -> str:
        return f"Lookalike({self.k!r})"


class AnyEq:
    """A value that claims to be EQUAL to everything (like ``unittest.mock.ANY``), a library's private markers
    included: only identity tells a marker from a value."""
    __hash__ = None  # type: ignore[assignment]

    def __init__(self, k: Any):
        self.k = k

    def __eq__(self, other: Any) -> bool:
        return True

    def __ne__(self, other: Any) -> bool:
        return False

    def __repr__(self) -> str:
        return f"AnyEq({self.k!r})"


def decode(v: Any) -> Any:
    """Decode a JSON-able raw value."""
    if isinstance(v, list):
        tag = v[0]
        if tag == "An":
            return AnyEq(v[1])
        if tag == "La":
            return Lookalike(v[1])
        if tag == "Aw":
            return AwaitablePayload(v[1])
        if tag == "Op":
            return Opaque(v[1])
        if tag == "Lt":
            return LtOnly(v[1], v[2] if len(v) > 2 else None)
        if tag == "Eq":
            return OneSidedEq(v[1], v[2])
        if tag == "X":
            return Touchy(v[1], v[2])
        if tag == "Du":
            return DualRecord(builtins.tuple(v[1:]))
        if tag == "Rs":
            return TextOnAdd(v[1])
        if tag == "V":
            return Vec(v[1])
        if tag == "F":
            return Fraction(v[1], v[2])
        if tag == "f":
            return float(v[1])
        if tag == "L":
            return [decode(x) for x in v[1:]]
        if tag == "T":
            return tuple(decode(x) for x in v[1:])
        if tag == "Dc":  # a dict from alternating keys and values
            return {decode(k): decode(x) for k, x in builtins.zip(v[1::2], v[2::2])}
        if tag == "It":  # a one-shot, UNSIZED iterator over the decoded members (no len(), no indexing)
            return builtins.iter(tuple(decode(x) for x in v[1:]))
        if tag == "Gn":  # a generator over the decoded members
            return (x for x in [decode(x) for x in v[1:]])
        if tag == "I":  # explicit item: ["I", key, uid]
            return Item(v[1], v[2], truth=v[1] != 0)
        raise ValueError(v)
    return v


def build_items(spec: dict, s: int) -> List[Any]:
    data = spec["srcs"][s]
    tool = spec["tool"]
    if spec.get("raw"):
        return [decode(v) for v in data]
    if tool == "starmap":
        return [tuple(Item(k, (s, i, j), truth=k != 0) for j, k in enumerate(tup)) for i, tup in enumerate(data)]
    if tool == "dict":
        return [(Item(k, (s, i, "k")), Item(v, (s, i, "v"))) for i, (k, v) in enumerate(data)]
    if spec.get("same_objects"):
        # the very same OBJECT handed out for every occurrence of a key (a repeated sentinel, an interned value, one
        # record listed twice): each occurrence is an item like any other - its key is computed, it is compared
        first: Dict[Any, Any] = {}
        return [first.setdefault(k, Item(k, (s, i), truth=k != 0)) for i, k in enumerate(data)]
    return [Item(k, (s, i), truth=k != 0) for i, k in enumerate(data)]


# ---------------------------------------------------------------------------
# function implementations (pure, on Items)
# ---------------------------------------------------------------------------

def _k(x: Any) -> Any:
    return x.key if isinstance(x, Item) else x


def _uid(x: Any) -> Any:
    return x.uid if isinstance(x, Item) else ("raw", repr(x))


def _failkey(x: Any) -> Any:
    raise ZeroDivisionError("key refuses every item")


IMPLS: Dict[str, Callable[..., Any]] = {
    # predicates
    "lt1": lambda x: _k(x) < 1,
    "lt2": lambda x: _k(x) < 2,
    "lt3": lambda x: _k(x) < 3,
    "even": lambda x: _k(x) % 2 == 0,
    "true": lambda x: True,
    "false": lambda x: False,
    "truthy": lambda x: [0] if _k(x) % 2 else [],  # non-bool truth values
    "none_or_1": lambda x: 1 if _k(x) % 2 else None,  # predicates answering None / 0 / "" for "no"
    "zero_or_str": lambda x: "y" if _k(x) < 2 else 0,
    # n-ary map
    "mk": lambda *xs: Item(builtins.sum(_k(x) for x in xs), ("mk",) + builtins.tuple(_uid(x) for x in xs)),
    "tup": lambda *xs: xs,
    "none_or_item": lambda *xs: None if builtins.sum(_k(x) for x in xs) % 2 else xs[0],  # results may be None
    "lookalike_result": lambda *xs: Lookalike(builtins.sum(_k(x) for x in xs)),  # not awaitable, only looks like it
    # a plain function whose FIRST result is a plain value (so it is a synchronous callable) and whose later results are
    # objects that happen to be awaitable: results like any other, handed on as they are
    "later_payload": lambda *xs: 0 if (isinstance(xs[0], Item) and xs[0].uid[-1] == 0) else AwaitablePayload(("late", _k(xs[0]))),
    "falsy_result": lambda *xs: ("", 0, (), None)[builtins.sum(_k(x) for x in xs) % 4],
    # binary reductions
    "add": lambda a, b: a + b,
    "pickmax": lambda a, b: a if _k(a) >= _k(b) else b,
    "first": lambda a, b: a,
    "second": lambda a, b: b,
    # reductions whose result is None / falsy now and then: a running total like any other
    "none_if_2": lambda a, b: None if _k(b) == 2 else b,
    "retnone": lambda a, b: None,
    "zero_if_1": lambda a, b: 0 if _k(b) == 1 else b,
    # keys
    # keys that are EQUAL (or the very same object) for every item and cannot be ordered: the counterparts compare keys
    # with ``<`` only, and fail on them like on any other unorderable pair
    "nonekey": lambda x: None,
    "dictkey": lambda x: {"k": 1},
    "half": lambda x: _k(x) // 2,
    "neg": lambda x: -_k(x),
    "ident": lambda x: x,
    # tells values apart that compare equal across types (1, 1.0, True)
    "typekey": lambda x: (type(x).__name__, x),
    "const": lambda x: 0,
    # ONE key object for every item that is not equal to itself (and not smaller either): comparisons of records that
    # carry it fall through to the next field by IDENTITY, as tuple comparison does - first-come order decides
    "samenan": lambda x: _SAME_NAN,
    "selfunequal": lambda x: _SELF_UNEQUAL,
    # ... and one whose == cannot be asked at all (an array-like "ambiguous truth value"): never asked about itself
    "sameraiser": lambda x: _SAME_RAISER,
    "failkey": _failkey,
    "keyitem": lambda x: Item(_k(x) // 2, ("key", _uid(x))),
    "nullary": lambda: None,  # replaced per run by the iter(callable, sentinel) feeder
}


class _SelfUnequal:
    __hash__ = None  # type: ignore

    def __eq__(self, other): return False
    def __lt__(self, other): return False
    def __gt__(self, other): return False
    def __repr__(self): return "<never-equal key>"


class _EqRaiser:
    __hash__ = None  # type: ignore

    def __eq__(self, other): raise ValueError("the truth value of this comparison is ambiguous")
    def __lt__(self, other): return False
    def __gt__(self, other): return False
    def __repr__(self): return "<key refusing ==>"


_SAME_RAISER = _EqRaiser()
_SAME_NAN = float("nan")
_SELF_UNEQUAL = _SelfUnequal()


# ---------------------------------------------------------------------------
# tool table
# ---------------------------------------------------------------------------

class ToolDef:
    __slots__ = ("name", "kind", "sync", "make", "nfn")

    def __init__(self, name: str, kind: str, sync: Callable[..., Any], make: Callable[..., Any], nfn: int = 0):
        self.name = name
        self.kind = kind  # "iter" | "agg" | "tee"
        self.sync = sync  # (S, F, P) -> sync iterator or value
        self.make = make  # (S, F, P) -> async iterator or awaitable
        self.nfn = nfn


def _opt(P: dict, name: str) -> dict:
    return {name: P[name]} if name in P else {}


def _batched_sync(S, F, P):
    n = P["n"]
    if not P.get("strict"):
        return itertools.batched(S[0], n)

    def strict():
        for batch in itertools.batched(S[0], n):
            if len(batch) != n:
                raise ValueError("batched(): incomplete batch")
            yield batch

    return strict()


def _accumulate_sync(S, F, P):
    kw = {}
    if "initial" in P:
        kw["initial"] = P["initial"]
    return itertools.accumulate(S[0], F[0] if F and F[0] is not None else None, **kw)


def _accumulate_async(S, F, P):
    kw = {}
    if "initial" in P:
        kw["initial"] = P["initial"]
    if F and F[0] is not None:
        return A.accumulate(S[0], F[0], **kw)
    return A.accumulate(S[0], **kw)


def _kr(F, P, name="key"):
    kw = {}
    if F and F[0] is not None:
        kw[name] = F[0]
    if P.get("reverse"):
        kw["reverse"] = True
    return kw


def _minmax(which_sync, which_async):
    def sync(S, F, P):
        kw = {}
        if F and F[0] is not None:
            kw["key"] = F[0]
        if "default" in P:
            kw["default"] = P["default"]
        return which_sync(S[0], **kw)

    def make(S, F, P):
        kw = {}
        if F and F[0] is not None:
            kw["key"] = F[0]
        if "default" in P:
            kw["default"] = P["default"]
        return which_async(S[0], **kw)

    return sync, make


def _reduce_sync(S, F, P):
    if "initial" in P:
        return functools.reduce(F[0], S[0], P["initial"])
    return functools.reduce(F[0], S[0])


def _reduce_async(S, F, P):
    if "initial" in P:
        return A.reduce(F[0], S[0], P["initial"])
    return A.reduce(F[0], S[0])


def _sum_sync(S, F, P):
    return builtins.sum(S[0], P["start"]) if "start" in P else builtins.sum(S[0])


def _sum_async(S, F, P):
    return A.sum(S[0], P["start"]) if "start" in P else A.sum(S[0])


def _nl(fn_sync, fn_async):
    def sync(S, F, P):
        return fn_sync(P["n"], S[0], key=F[0] if F and F[0] is not None else None)

    def make(S, F, P):
        if F and F[0] is not None:
            return fn_async(S[0], P["n"], key=F[0])
        return fn_async(S[0], P["n"])

    return sync, make


_min_s, _min_a = _minmax(builtins.min, A.min)
_max_s, _max_a = _minmax(builtins.max, A.max)
_nl_s, _nl_a = _nl(heapq.nlargest, A.nlargest)
_ns_s, _ns_a = _nl(heapq.nsmallest, A.nsmallest)

TOOLS: Dict[str, ToolDef] = {}


def _reg(name, kind, sync, make, nfn=0):
    TOOLS[name] = ToolDef(name, kind, sync, make, nfn)


_reg("zip", "iter", lambda S, F, P: builtins.zip(*S), lambda S, F, P: A.zip(*S))
class _TruthyFlag:
    """A flag object that is true without being ``True`` (a numpy bool, a settings object)."""

    def __bool__(self) -> bool:
        return True


def _strict_flag(P: dict) -> Any:
    # (``strict`` is used for its truth value, like by the builtin: 1 and other true objects mean strict)
    return {None: True, 1: 1, "obj": _TruthyFlag()}[P.get("strict_flag")]


_reg("zip_strict", "iter", lambda S, F, P: builtins.zip(*S, strict=_strict_flag(P)),
     lambda S, F, P: A.zip(*S, strict=_strict_flag(P)))
_reg("map", "iter", lambda S, F, P: builtins.map(F[0], *S), lambda S, F, P: A.map(F[0], *S), 1)
_reg("filter", "iter", lambda S, F, P: builtins.filter(F[0], S[0]), lambda S, F, P: A.filter(F[0], S[0]), 1)
_reg("enumerate", "iter", lambda S, F, P: builtins.enumerate(S[0], P.get("start", 0)),
     lambda S, F, P: A.enumerate(S[0], P.get("start", 0)))
_reg("accumulate", "iter", _accumulate_sync, _accumulate_async, 1)
_reg("batched", "iter", _batched_sync, lambda S, F, P: A.batched(S[0], P["n"], **_opt(P, "strict")))
_reg("chain", "iter", lambda S, F, P: itertools.chain(*S), lambda S, F, P: A.chain(*S))
_reg("chain_from_iterable", "iter", lambda S, F, P: itertools.chain.from_iterable(P["outer"]),
     lambda S, F, P: A.chain.from_iterable(P["outer"]))
_reg("compress", "iter", lambda S, F, P: itertools.compress(S[0], S[1]), lambda S, F, P: A.compress(S[0], S[1]))
_reg("cycle", "iter", lambda S, F, P: itertools.cycle(S[0]), lambda S, F, P: A.cycle(S[0]))
_reg("dropwhile", "iter", lambda S, F, P: itertools.dropwhile(F[0], S[0]), lambda S, F, P: A.dropwhile(F[0], S[0]), 1)
_reg("takewhile", "iter", lambda S, F, P: itertools.takewhile(F[0], S[0]), lambda S, F, P: A.takewhile(F[0], S[0]), 1)
_reg("filterfalse", "iter", lambda S, F, P: itertools.filterfalse(F[0], S[0]),
     lambda S, F, P: A.filterfalse(F[0], S[0]), 1)
_reg("islice", "iter", lambda S, F, P: itertools.islice(S[0], *P["args"]), lambda S, F, P: A.islice(S[0], *P["args"]))
_reg("pairwise", "iter", lambda S, F, P: itertools.pairwise(S[0]), lambda S, F, P: A.pairwise(S[0]))
_reg("starmap", "iter", lambda S, F, P: itertools.starmap(F[0], S[0]), lambda S, F, P: A.starmap(F[0], S[0]), 1)
_reg("zip_longest", "iter", lambda S, F, P: itertools.zip_longest(*S, **_opt(P, "fillvalue")),
     lambda S, F, P: A.zip_longest(*S, **_opt(P, "fillvalue")))
_reg("merge", "iter", lambda S, F, P: heapq.merge(*S, **_kr(F, P)), lambda S, F, P: A.merge(*S, **_kr(F, P)), 1)
_reg("iter_sentinel", "iter", lambda S, F, P: builtins.iter(F[0], P["sentinel"]),
     lambda S, F, P: A.iter(F[0], P["sentinel"]), 1)
_reg("tee", "tee", lambda S, F, P: itertools.tee(S[0], P["n"]), lambda S, F, P: A.tee(S[0], P["n"]))
# asynctools.any_iter: "whatever kind of iterable" -> async iterator of its items (only used by C03 / C19)
_reg("any_iter", "iter", lambda S, F, P: builtins.iter(S[0]), lambda S, F, P: A.any_iter(S[0]))

# aggregations
_reg("all", "agg", lambda S, F, P: builtins.all(S[0]), lambda S, F, P: A.all(S[0]))
_reg("any", "agg", lambda S, F, P: builtins.any(S[0]), lambda S, F, P: A.any(S[0]))
_reg("sum", "agg", _sum_sync, _sum_async)
_reg("min", "agg", _min_s, _min_a, 1)
_reg("max", "agg", _max_s, _max_a, 1)
_reg("list", "agg", lambda S, F, P: builtins.list(S[0]), lambda S, F, P: A.list(S[0]))
_reg("tuple", "agg", lambda S, F, P: builtins.tuple(S[0]), lambda S, F, P: A.tuple(S[0]))
_reg("set", "agg", lambda S, F, P: builtins.set(S[0]), lambda S, F, P: A.set(S[0]))
_reg("dict", "agg", lambda S, F, P: builtins.dict(S[0], **P.get("kwargs", {})),
     lambda S, F, P: A.dict(S[0], **P.get("kwargs", {})))
_reg("sorted", "agg", lambda S, F, P: builtins.sorted(S[0], **_kr(F, P)), lambda S, F, P: A.sorted(S[0], **_kr(F, P)), 1)
_reg("reduce", "agg", _reduce_sync, _reduce_async, 1)
_reg("nlargest", "agg", _nl_s, _nl_a, 1)
_reg("nsmallest", "agg", _ns_s, _ns_a, 1)

ITER_TOOLS = [n for n, t in TOOLS.items() if t.kind == "iter"]
AGG_TOOLS = [n for n, t in TOOLS.items() if t.kind == "agg"]

# tools whose twin is infinite and must be driven a bounded number of steps
INFINITE = {"cycle"}
MAX_STEPS = 64


# ---------------------------------------------------------------------------
# one side of a differential run
# ---------------------------------------------------------------------------

class Side:
    """Everything observed on one side of a differential run."""

    __slots__ = ("log", "out", "term", "exc", "srcs", "fns", "value", "params", "inputs_before",
                 "inputs_after", "handle", "foreign", "suspensions", "objs", "final_out", "alias", "items_changed", "rtype", "sources", "iter_asked")

    def __init__(self) -> None:
        self.log: List[tuple] = []
        self.out: List[Any] = []  # canonical yielded items
        self.term: Any = None  # ("stop",) | ("raise", type name, is injected object) | ("open",) | ("ret", canon)
        self.rtype: Any = None  # exact type name of an aggregation's result
        self.exc: Optional[BaseException] = None
        self.srcs: List[SrcState] = []
        self.fns: List[Optional[FnState]] = []
        self.value: Any = MISSING
        self.params: dict = {}
        self.inputs_before: Any = None
        self.inputs_after: Any = None
        self.handle: Any = None
        self.foreign: List[str] = []
        self.suspensions = 0
        self.objs: Optional[List[Any]] = None  # yielded objects themselves (only when keep_objs is requested)
        self.final_out: Any = None  # their canonical form after the run (later mutation shows here)
        self.alias: Any = None  # identity pattern: index of the first yielded object that IS this one
        self.items_changed = False  # an input element was modified
        self.iter_asked: dict = {}  # source id -> uses of any source so far when it was first asked for an iterator
        self.sources: List[Any] = []  # the source objects handed to the library (for probing them after the run)


def _params(spec: dict) -> dict:
    """Materialise params (fresh mutable objects per side)."""
    P = {}
    for name, val in spec.get("params", {}).items():
        if name in ("initial", "default", "start", "fillvalue", "sentinel"):
            P[name] = decode_param(val)
        else:
            P[name] = val
    if "args" in P:
        P["args"] = builtins.tuple(P["args"])
    return P


def decode_param(val: Any) -> Any:
    """Params holding objects: ["item", key, uid] | ["raw", encoded] | ["none"]."""
    if isinstance(val, list) and val and val[0] == "item":
        return Item(val[1], val[2], truth=val[1] != 0)
    if isinstance(val, list) and val and val[0] == "raw":
        return decode(val[1])
    if isinstance(val, list) and val and val[0] == "none":
        return None
    if not isinstance(val, list):
        return val  # plain value (e.g. enumerate start)
    raise ValueError(val)


class Fault:
    """Where to inject: ("src", index, use) or ("fn", index, use); exc type name."""

    __slots__ = ("kind", "index", "use", "exc", "phase")

    def __init__(self, kind: str, index: int, use: int, exc: BaseException, phase: str = "call"):
        self.kind = kind
        self.index = index
        self.use = use
        self.exc = exc
        self.phase = phase


def _term_of(exc: BaseException, fault: Optional[Fault]) -> tuple:
    return ("raise", type(exc).__name__, bool(fault is not None and exc is fault.exc))


def _mk_states(spec: dict, fault: Optional[Fault], susp: int, log: bool, side: Side,
               fn_susp: int = 0) -> None:
    nsrc = len(spec["srcs"])
    for s in range(nsrc):
        plan = NOPLAN
        f_at = fault.use if (fault is not None and fault.kind == "src" and fault.index == s) else None
        if susp or f_at is not None:
            plan = Plan(susp, f_at, fault.exc if f_at is not None else None)
        side.srcs.append(SrcState(s, build_items(spec, s), plan, log))
    CTX.srcs = side.srcs
    for i, name in enumerate(spec.get("fns", [])):
        if name is None:
            side.fns.append(None)
            continue
        f_at = fault.use if (fault is not None and fault.kind == "fn" and fault.index == i) else None
        side.fns.append(FnState(f"f{i}", IMPLS[name], fn_susp, f_at, fault.exc if f_at is not None else None,
                                fault.phase if f_at is not None else "call", log))


def _iter_sentinel_fn(side: Side, spec: dict):
    """nullary callable serving source 0's items; LookupError when they run out."""
    st = side.srcs[0]
    impl_items = st.items
    P = side.params
    if "identical_at" in P and impl_items:
        # the callable returns the very sentinel object at that position
        impl_items[P["identical_at"] % len(impl_items)] = P["sentinel"]

    def impl():
        if st.pos < len(impl_items):
            item = impl_items[st.pos]
            st.pos += 1
            return item
        raise LookupError("iter(callable, sentinel): callable ran dry")

    return impl


def run_sync_side(spec: dict, fault: Optional[Fault] = None, steps: Optional[int] = None,
                  log: bool = True, ops: Optional[List[int]] = None, gen_twin: bool = False,
                  keep_objs: bool = False) -> Side:
    """Run the stdlib twin on synchronous probes."""
    side = Side()
    CTX.reset()
    tool = TOOLS[spec["tool"]]
    _mk_states(spec, fault, 0, log, side)
    if keep_objs:
        side.objs = []
    elems_before = [canon(st.items) for st in side.srcs] if keep_objs else None
    P = side.params = _params(spec)
    if spec["tool"] == "iter_sentinel":
        side.fns[0].impl = _iter_sentinel_fn(side, spec)  # type: ignore[union-attr]
        S: List[Any] = []
    else:
        # generator twins do not observe a pull after exhaustion, exactly like generator sources
        S = [sync_gen(st) if gen_twin else SyncSrc(st) for st in side.srcs]
        for i, j in spec.get("same", []):
            S[j] = S[i]  # ONE single-use iterator handed over as two arguments (the zip(it, it) idiom)
    if spec["tool"] == "chain_from_iterable":
        outer = SrcState("outer", S, NOPLAN, log)
        if fault is not None and fault.kind == "outer":
            outer.plan = Plan(0, fault.use, fault.exc)
        side.srcs.append(outer)
        P["outer"] = sync_gen(outer) if gen_twin else SyncSrc(outer)
    F = [make_fn(fs, "def") if fs is not None else None for fs in side.fns]
    try:
        if tool.kind == "agg":
            side.inputs_before = _snapshot(P)
            try:
                side.value = tool.sync(S, F, P)
                side.term = ("ret", canon(side.value))
                side.rtype = type(side.value).__name__
            except BaseException as exc:  # noqa: BLE001
                side.exc = exc
                side.term = _term_of(exc, fault)
            side.inputs_after = _snapshot(P)
        elif tool.kind == "tee":
            children = list(tool.sync(S, F, P))
            for c in ops or []:
                if isinstance(c, list):  # ["close", child]: itertools.tee children are simply dropped
                    children[c[1]] = None
                    continue
                if children[c] is None:
                    continue
                CTX.ev("step", c)
                try:
                    item = next(children[c])
                except StopIteration:
                    CTX.ev("stop", c)
                    side.out.append((c, "stop"))
                except BaseException as exc:  # noqa: BLE001
                    t = _term_of(exc, fault)
                    CTX.ev(*t)
                    side.out.append((c, t))
                else:
                    CTX.ev("yield", c, canon(item))
                    side.out.append((c, canon(item)))
            side.term = ("open",)
        else:
            try:
                it = tool.sync(S, F, P)
            except BaseException as exc:  # noqa: BLE001 - constructor failure
                side.exc = exc
                side.term = _term_of(exc, fault)
            else:
                limit = steps if steps is not None else MAX_STEPS
                side.term = ("open",)
                for i in range(limit):
                    CTX.ev("step", i)
                    try:
                        item = next(it)
                    except StopIteration:
                        side.term = ("stop",)
                        break
                    except BaseException as exc:  # noqa: BLE001
                        side.exc = exc
                        side.term = _term_of(exc, fault)
                        break
                    side.out.append(canon(item))
                    if side.objs is not None:
                        side.objs.append(item)
                    CTX.ev("yield", canon(item))
                CTX.ev(*side.term)
                if spec["tool"] == "iter_sentinel" and side.term == ("stop",):
                    # an iterator that has ended stays ended: asked again (a consumer polling past the end, a tool
                    # re-polling its exhausted source) it says so again - and does not call the callable any more
                    for _ in range(2):
                        try:
                            again = next(it)
                        except StopIteration:
                            CTX.ev("asked-after-the-end", "stop")
                        except BaseException as exc:  # noqa: BLE001
                            CTX.ev("asked-after-the-end", "raised", type(exc).__name__)
                            side.out.append(("after-the-end", "raised", type(exc).__name__))
                        else:
                            CTX.ev("asked-after-the-end", "item")
                            side.out.append(("after-the-end", canon(again)))
    finally:
        side.log = CTX.log
        side.iter_asked = dict(CTX.iter_asked)
    _finish_objs(side, elems_before)
    return side


def _finish_objs(side: "Side", elems_before: Any) -> None:
    if side.objs is None:
        return
    side.final_out = [canon(o) for o in side.objs]
    first: Dict[int, int] = {}
    side.alias = [first.setdefault(id(o), n) for n, o in enumerate(side.objs) if isinstance(o, (list, dict, set, bytearray))]
    if elems_before is not None:
        side.items_changed = elems_before != [canon(st.items) for st in side.srcs if st.sid != "outer"][:len(elems_before)]
    side.objs = None


def _snapshot(P: dict) -> Any:
    return {k: (id(v), canon(v)) for k, v in P.items() if k in ("initial", "default", "start")}


def run_async_side(spec: dict, flavours: Optional[List[str]] = None, fn_flavours: Optional[List[str]] = None,
                   fault: Optional[Fault] = None, steps: Optional[int] = None, susp: int = 0, fn_susp: int = 0,
                   log: bool = True, ops: Optional[List[int]] = None, cancel_at: Optional[int] = None,
                   cancel_exc: Optional[BaseException] = None, close_after: bool = False,
                   outer_flavour: str = "async_class", poke_at: Optional[int] = None,
                   athrow: Optional[BaseException] = None, keep_objs: bool = False) -> Side:
    """Run the asyncstdlib tool on probes of the requested flavours under the driver."""
    side = Side()
    CTX.reset()
    tool = TOOLS[spec["tool"]]
    _mk_states(spec, fault, susp, log, side, fn_susp)
    if keep_objs:
        side.objs = []
    elems_before = [canon(st.items) for st in side.srcs] if keep_objs else None
    P = side.params = _params(spec)
    nsrc = len(spec["srcs"])
    flavours = flavours or ["async_class"] * nsrc
    if spec["tool"] == "iter_sentinel":
        side.fns[0].impl = _iter_sentinel_fn(side, spec)  # type: ignore[union-attr]
        S: List[Any] = []
    else:
        S = [make_source(st, fl) for st, fl in builtins.zip(side.srcs, flavours)]
        for i, j in spec.get("same", []):
            S[j] = S[i]
    side.sources = S
    if spec["tool"] == "chain_from_iterable":
        outer = SrcState("outer", S, Plan(susp if outer_flavour.startswith("async") else 0), log)
        if fault is not None and fault.kind == "outer":
            outer.plan = Plan(outer.plan.susp, fault.use, fault.exc)
        side.srcs.append(outer)
        P["outer"] = make_source(outer, outer_flavour)
    nfn = len(side.fns)
    fn_flavours = fn_flavours or ["def"] * nfn
    F = [make_fn(fs, fl) if fs is not None else None for fs, fl in builtins.zip(side.fns, fn_flavours)]
    inputs = [s for s in S if isinstance(s, builtins.list)]
    before = [(builtins.list(s), builtins.len(s)) for s in inputs]
    # the state of the elements themselves (whatever the flavour they are handed over in)
    items_before = [canon(st.items) for st in side.srcs if st.sid != "outer"] if tool.kind == "agg" else None

    async def agg_main():
        side.inputs_before = _snapshot(P)
        try:
            aw = tool.make(S, F, P)
            side.handle = aw
            side.value = await aw
            side.term = ("ret", canon(side.value))
            side.rtype = type(side.value).__name__
        except BaseException as exc:  # noqa: BLE001
            side.exc = exc
            side.term = _term_of(exc, fault)
            if cancel_exc is not None and exc is cancel_exc:
                side.term = ("raise", type(exc).__name__, True)
        side.inputs_after = _snapshot(P)

    async def tee_main():
        handle = tool.make(S, F, P)
        side.handle = handle
        closed = set()
        for c in ops or []:
            if isinstance(c, list):
                try:
                    await handle[c[1]].aclose()
                except BaseException as exc:  # noqa: BLE001
                    CTX.ev("close-raised", c[1], type(exc).__name__)
                    side.out.append((c[1], ("close-raised", type(exc).__name__)))
                closed.add(c[1])
                continue
            if c in closed:
                continue
            CTX.ev("step", c)
            try:
                item = await handle[c].__anext__()
            except StopAsyncIteration:
                CTX.ev("stop", c)
                side.out.append((c, "stop"))
            except BaseException as exc:  # noqa: BLE001
                t = _term_of(exc, fault)
                CTX.ev(*t)
                side.out.append((c, t))
            else:
                CTX.ev("yield", c, canon(item))
                side.out.append((c, canon(item)))
        side.term = ("open",)

    async def iter_main():
        try:
            it = tool.make(S, F, P)
        except BaseException as exc:  # noqa: BLE001
            side.exc = exc
            side.term = _term_of(exc, fault)
            return
        side.handle = it
        limit = steps if steps is not None else MAX_STEPS
        side.term = ("open",)
        try:
            for i in range(limit):
                CTX.ev("step", i)
                try:
                    item = await it.__anext__()
                except StopAsyncIteration:
                    side.term = ("stop",)
                    break
                except BaseException as exc:  # noqa: BLE001
                    side.exc = exc
                    side.term = _term_of(exc, fault)
                    if cancel_exc is not None and exc is cancel_exc:
                        side.term = ("raise", type(exc).__name__, True)
                    break
                if CTX.thrown and cancel_exc is not None:
                    # the advance into which the cancellation was thrown handed out an item: the exception did not
                    # propagate out of the operation it interrupted (whatever happens on a later advance)
                    side.term = ("item-after-cancel", canon(item))
                    break
                side.out.append(canon(item))
                if side.objs is not None:
                    side.objs.append(item)
                CTX.ev("yield", canon(item))
                del item
            CTX.ev(*side.term)
            if fault is not None and side.term and side.term[0] == "raise":
                # the consumer caught the failure and asks the tool once more (a retry loop): whatever the tool answers,
                # it does not go back to a source or callable that has failed
                marker = len(CTX.log)
                try:
                    await it.__anext__()
                except BaseException:  # noqa: BLE001
                    pass
                del CTX.log[marker:]
            if spec["tool"] == "iter_sentinel" and side.term == ("stop",):
                for _ in range(2):
                    try:
                        again = await it.__anext__()
                    except StopAsyncIteration:
                        CTX.ev("asked-after-the-end", "stop")
                    except BaseException as exc:  # noqa: BLE001
                        CTX.ev("asked-after-the-end", "raised", type(exc).__name__)
                        side.out.append(("after-the-end", "raised", type(exc).__name__))
                    else:
                        CTX.ev("asked-after-the-end", "item")
                        side.out.append(("after-the-end", canon(again)))
            if athrow is not None and side.term == ("open",) and hasattr(it, "athrow"):
                # the consumer throws into the library iterator at this position
                try:
                    await it.athrow(athrow)
                except StopAsyncIteration:
                    side.term = ("athrow", "stop")
                except BaseException as exc:  # noqa: BLE001
                    side.term = ("athrow", type(exc).__name__, exc is athrow)
                else:
                    side.term = ("athrow", "yielded")
        finally:
            if close_after:
                aclose = getattr(it, "aclose", None)
                if aclose is not None:
                    try:
                        await aclose()
                    except BaseException as exc:  # noqa: BLE001
                        CTX.ev("aclose-raised", type(exc).__name__)
                        side.log = CTX.log
                        side.term = ("aclose-raised", type(exc).__name__, str(exc)[:80])

    main = {"agg": agg_main, "tee": tee_main, "iter": iter_main}[tool.kind]
    try:
        drive(main(), cancel_at=cancel_at, cancel_exc=cancel_exc, poke_at=poke_at)
    except BudgetExceeded:
        side.term = ("budget",)
    side.log = CTX.log
    side.foreign = builtins.list(CTX.foreign)
    side.iter_asked = dict(CTX.iter_asked)
    side.suspensions = CTX.suspensions
    _finish_objs(side, elems_before)
    if items_before is not None:
        items_after = [canon(st.items) for st in side.srcs if st.sid != "outer"]
        if items_after != items_before and not builtins.any(st.drop for st in side.srcs):
            side.inputs_after = dict(side.inputs_after or {}, mutated_list=True,
                                     elements=[items_before, items_after])
    # inputs given as lists must be untouched
    for (snap, n), s in builtins.zip(before, inputs):
        if builtins.len(s) != n or builtins.any(x is not y for x, y in builtins.zip(snap, s)):
            side.inputs_after = dict(side.inputs_after or {}, mutated_list=True)
    return side


# ---------------------------------------------------------------------------
# log projections
# ---------------------------------------------------------------------------

def strip_close(log: List[tuple]) -> List[tuple]:
    """The events compared for C05: pulls, end checks, faults, calls, steps, yields, termination."""
    return [e for e in log if e[0] not in ("close", "asend", "athrow", "acquire", "release", "aclose-raised")]


def first_diff(a: List[Any], b: List[Any]) -> Optional[int]:
    for i, (x, y) in enumerate(builtins.zip(a, b)):
        if x != y:
            return i
    if len(a) != len(b):
        return builtins.min(len(a), len(b))
    return None


def drop_stdlib_repolls(exp, got):
    """Remove from the reference log end-detections of a source that had *already* signalled its end,
    where asyncstdlib does not re-poll (3.12's batched after a short batch, a finished tee child
    advanced again).  Not re-polling an exhausted source is neither reading ahead nor consuming more;
    the opposite direction (asyncstdlib polling again) is still reported."""
    out = []
    ended = set()
    j = 0
    skipped = 0
    for ev in exp:
        if ev[0] == "end":
            if ev[1] in ended and not (j < len(got) and got[j] == ev):
                skipped += 1
                continue
            ended.add(ev[1])
        out.append(ev)
        j += 1
    return out, skipped


