#!/bin/bash
# usage: ./run_all.sh [tier] ; runs every check, prints one summary line each
tier=${1:-quick}
rc=0
for i in $(seq -w 1 20); do
  out=$(./check C$i --tier $tier 2>&1); code=$?
  echo "$out" | grep -E "^(HELD|FAIL|INCONCLUSIVE C|VIOLATION|KNOWN)" | cut -c1-160
  [ $code -ne 0 ] && rc=1
done
exit $rc
